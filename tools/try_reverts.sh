#!/bin/sh
# tools/try_reverts.sh [commit...]
# Sensitivity by regression: for every `fix:` commit of /repo recorded in known_findings.jsonl
# (or the ones given), reverse-apply it to the working tree, run the quick check of the property
# it was fixed under, restore /repo.  Writes /verif/seeded/REVERTS.md.  Never commits to /repo.
set -u
cd /verif
git -C /repo diff --quiet || { echo "/repo has uncommitted changes; refusing"; exit 2; }
if [ $# -gt 0 ]; then list="$*"; else
  list=$(python3 -c '
import json
for l in open("/verif/known_findings.jsonl"):
    e=json.loads(l)
    if e.get("status")=="fixed": print(e["commit"]+":"+e["property"])
' | sort -u); fi
mkdir -p /tmp/mutant_root/replays && cp /verif/known_findings.jsonl /tmp/mutant_root/ && rm -rf /tmp/mutant_root/replays/keep && cp -r /verif/replays/keep /tmp/mutant_root/replays/keep
out=${REVERTS_OUT:-/verif/seeded/REVERTS.md}
{ echo "# Reverting each recorded fix (tools/try_reverts.sh)"; echo
  echo "| commit | property | subject | quick check on the reverted tree |"; echo "|---|---|---|---|"; } > "$out"
for cp in $list; do
  c=${cp%%:*}; p=${cp##*:}
  subj=$(git -C /repo log -1 --format=%s "$c" | cut -c1-90)
  git -C /repo show "$c" -- src > /tmp/revert.diff
  if ! git -C /repo apply -R --check /tmp/revert.diff 2>/dev/null; then
    echo "| $c | $p | $subj | not tried: later commits touch the same lines |" >> "$out"; echo "$c skip"; continue
  fi
  git -C /repo apply -R /tmp/revert.diff
  r=""
  if ! ./check build > /tmp/revert_build.log 2>&1; then
    r="not tried: the tree does not compile with this commit alone reverted"; rc=2; n=0
  else
    # the property the fix was recorded under first, then the other two
    for q in "$p" C06 C07 C08; do
      log=/tmp/revert_${c}_${q}.log
      VERIF_ROOT=/tmp/mutant_root ./check "$q" quick > "$log" 2>&1; rc=$?
      n=$(grep -c '^VIOLATION' "$log")
      first=$(grep -E '^violation:' "$log" | head -1 | cut -c1-160 | tr '|' '/')
      if [ "$rc" = 1 ] && [ "$n" -gt 0 ]; then r="flagged by $q quick ($n): $first"; break; fi
    done
    [ -n "$r" ] || r="**NOT flagged** by any quick check"
  fi
  git -C /repo checkout -- .
  echo "| $c | $p | $subj | $r |" >> "$out"; echo "$c $p exit=$rc violations=$n"
done
./check build >/dev/null 2>&1
echo "written $out"
