#!/bin/sh
# tools/confirm_mutant.sh <seeded-id>
# Confirms a seeded change in a scratch worktree of /repo (never in /repo itself):
#   with the patch: builds, the existing suite passes (110 + mul_rk failing as at baseline), the demo FAILS
#   without it:     the demo PASSES
set -u
id="$1"
d="/verif/seeded/$id"
wt=/tmp/wt_confirm
export CARGO_NET_OFFLINE=true
[ -d "$wt" ] || git -C /repo worktree add -q --detach "$wt" HEAD || exit 2
cd "$wt" && git checkout -q --detach main && git checkout -q -- . && rm -f tests/mutant_demo.rs
log="$d/confirm.log"
: > "$log"
git apply "$d/patch.diff" || { echo "patch does not apply" | tee -a "$log"; exit 2; }
echo "== suite with the change" >> "$log"
cargo test --workspace --no-fail-fast --offline 2>&1 | grep -E "^test result|^error" >> "$log"
cp "$d/demo.rs" tests/mutant_demo.rs
echo "== demo with the change (expected: FAIL)" >> "$log"
timeout 600 cargo test --offline --test mutant_demo 2>&1 | grep -E "^test result|^test .* (ok|FAILED)|panicked|^error" | head -20 >> "$log"
git checkout -q -- .
echo "== demo without the change (expected: pass)" >> "$log"
timeout 600 cargo test --offline --test mutant_demo 2>&1 | grep -E "^test result|^test .* (ok|FAILED)|^error" | head -20 >> "$log"
rm -f tests/mutant_demo.rs
echo "--- $id"; cat "$log"
