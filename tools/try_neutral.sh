#!/bin/sh
# tools/try_neutral.sh <neutral-id>
# Applies /verif/neutral/<id>/patch.diff (a behaviour-preserving change) to /repo, runs the three
# quick checks, restores /repo.  Every check must exit 0: anything else is a false alarm.
set -u
id="$1"
cd /verif
git -C /repo diff --quiet || { echo "/repo has uncommitted changes; refusing"; exit 2; }
git -C /repo apply "/verif/neutral/$id/patch.diff" || { echo "$id: patch does not apply"; exit 2; }
mkdir -p /tmp/mutant_root/replays && cp /verif/known_findings.jsonl /tmp/mutant_root/ && rm -rf /tmp/mutant_root/replays/keep && cp -r /verif/replays/keep /tmp/mutant_root/replays/keep
res=""
for prop in C06 C07 C08; do
  out="/tmp/neutral_${id}_${prop}.log"
  VERIF_ROOT=/tmp/mutant_root ./check "$prop" quick > "$out" 2>&1
  rc=$?
  res="$res $prop=$rc"
  if [ $rc -ne 0 ]; then grep -E "^violation:|harness error" "$out" | cut -c1-300 | head -5; fi
done
git -C /repo checkout -- . && ./check build
echo "$id:$res"
