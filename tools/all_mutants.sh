#!/bin/sh
# tools/all_mutants.sh [tier] — run every seeded change against the check of its property and
# write /verif/seeded/SUMMARY.md.  Applies each patch to /repo, checks, restores, rebuilds.
tier="${1:-quick}"
cd /verif
out=seeded/SUMMARY.md
echo "# Seeded changes vs. checks ($tier tier)" > $out
echo "" >> $out
echo "| id | property | exit | VIOLATION lines | first violation |" >> $out
echo "|---|---|---|---|---|" >> $out
for d in seeded/*/; do
  id=$(basename $d)
  [ -f "$d/patch.diff" ] || continue
  case "$id" in C0*) prop=$(echo $id | cut -c1-3);; own-*) prop=C06;; *) continue;; esac
  r=$(tools/try_mutant.sh $id $prop $tier 2>&1)
  ex=$(echo "$r" | head -1 | sed 's/.*exit=\([0-9]*\).*/\1/')
  nv=$(echo "$r" | head -1 | sed 's/.*exit=[0-9]*  \([0-9]*\) violation.*/\1/')
  fv=$(echo "$r" | sed -n 2p | cut -c1-160 | tr '|' '/')
  echo "| $id | $prop | $ex | $nv | $fv |" >> $out
  echo "$id exit=$ex n=$nv"
done
