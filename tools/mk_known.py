#!/usr/bin/env python3
"""Merge triage dumps (sim triage …) into known_findings.jsonl.  Run by hand after a human has
looked at the dump; never run by a check (DESIGN §6: the file is not written at run time).

usage: tools/mk_known.py <triage.jsonl>... [--apply]
Without --apply it only prints what it would add.
"""
import json, sys

FN_SCOPE = {
    # functions that are unchecked throughout (dozens of unchecked slices each): one entry per function
    "src/xls.rs::parse_formula": "xls formula token walker slices the token stream without length checks",
    "src/xlsb/mod.rs::parse_formula": "xlsb formula token walker slices the token stream and indexes sheet/function tables without checks",
}

def site_fn(o):
    p = o.split("::")
    return "::".join(p[:2]) if len(p) >= 2 else o

def main():
    apply = "--apply" in sys.argv
    files = [a for a in sys.argv[1:] if not a.startswith("--")]
    path = "/verif/known_findings.jsonl"
    known = [json.loads(l) for l in open(path) if l.strip() and not l.startswith("#")]
    have = {(k["property"], k["class"], k.get("origin", "")) for k in known}
    have_fn = {(k["property"], k["class"], k.get("origin_fn", "")) for k in known if k.get("origin_fn")}
    add = []
    for f in files:
        for l in open(f):
            if not l.strip():
                continue
            r = json.loads(l)
            fn = site_fn(r["origin"])
            if fn in FN_SCOPE and r["class"] == "panic":
                key = (r["property"], r["class"], fn)
                if key in have_fn:
                    continue
                have_fn.add(key)
                add.append({"property": r["property"], "status": "open", "class": r["class"], "origin_fn": fn,
                            "what": FN_SCOPE[fn], "example": {"file": r.get("file"), "entry": r.get("entry"), "faults": r.get("why"), "site": r["origin"]}})
                continue
            key = (r["property"], r["class"], r["origin"])
            if key in have or (r["property"], r["class"], fn) in have_fn and r["class"] == "panic":
                continue
            have.add(key)
            msg = (r.get("msg") or "").split("\n")[0][:90]
            add.append({"property": r["property"], "status": "open", "class": r["class"], "origin": r["origin"],
                        "seen_from": [r["client"]] if r.get("client") else [],
                        "what": f"{r['class']} in {fn} ({msg})",
                        "example": {"file": r.get("file"), "entry": r.get("entry"), "faults": r.get("why")}})
    for a in add:
        print(json.dumps(a))
    print(f"# {len(add)} new entries", file=sys.stderr)
    if apply and add:
        with open(path, "a") as out:
            for a in add:
                out.write(json.dumps(a) + "\n")

main()
