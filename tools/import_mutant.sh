#!/bin/sh
# tools/import_mutant.sh <worktree-out-dir> <seeded-id>
# Copies a sub-agent's patch.diff, demo.rs and notes.md into /verif/seeded/<id>/ and confirms it (tools/confirm_mutant.sh).
set -u
src="$1"; id="$2"
d="/verif/seeded/$id"
mkdir -p "$d" && cp "$src/patch.diff" "$src/demo.rs" "$d/" && cp "$src/notes.md" "$d/notes.md" 2>/dev/null
/verif/tools/confirm_mutant.sh "$id"
