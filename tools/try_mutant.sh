#!/bin/sh
# tools/try_mutant.sh <seeded-id> <property> [tier]
# Applies /verif/seeded/<id>/patch.diff to /repo, runs the check, restores /repo.  Never commits.
set -u
id="$1"; prop="$2"; tier="${3:-quick}"
cd /verif
git -C /repo diff --quiet || { echo "/repo has uncommitted changes; refusing"; exit 2; }
git -C /repo apply "/verif/seeded/$id/patch.diff" || { echo "patch does not apply"; exit 2; }
mkdir -p /tmp/mutant_root/replays && cp /verif/known_findings.jsonl /tmp/mutant_root/ && rm -rf /tmp/mutant_root/replays/keep && cp -r /verif/replays/keep /tmp/mutant_root/replays/keep
out="/tmp/mutant_${id}_${prop}_${tier}.log"
VERIF_ROOT=/tmp/mutant_root ./check "$prop" "$tier" > "$out" 2>&1
rc=$?
git -C /repo checkout -- . && ./check build
echo "$id $prop $tier exit=$rc  $(grep -c '^VIOLATION' "$out") violation line(s)"
grep -E "^violation:" "$out" | cut -c1-260 | head -4
exit 0
