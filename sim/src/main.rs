//! `sim`: driver and worker in one binary (DESIGN §7).
//!
//!   sim check <C06|C07|C08> <quick|thorough>      (env VERIF_SEED, VERIF_WORKERS, VERIF_LIMIT)
//!   sim replay <file>
//!   sim selftest determinism [n]
//!   sim worker|exec-spec|spec …                    (internal)
//!
//! Exit codes: 0 held on everything explored, 1 violation (a `VIOLATION …` line was printed),
//! 2 harness error.

use simkit::engine::Tier;

#[global_allocator]
static ALLOC: simkit::guard::CountingAlloc = simkit::guard::CountingAlloc;

fn seed_from_env() -> u64 {
    std::env::var("VERIF_SEED").ok().and_then(|s| s.trim().parse::<u64>().ok()).unwrap_or(1)
}

fn main() {
    let args: Vec<String> = std::env::args().collect();
    let a = |i: usize| args.get(i).map(|s| s.as_str()).unwrap_or("");
    let code = match a(1) {
        "worker" => {
            let tier = Tier::parse(a(3)).unwrap_or(Tier::Quick);
            let seed = a(4).parse().unwrap_or(1);
            simkit::worker::worker_main(a(2), tier, seed, false)
        }
        "exec-spec" => simkit::worker::exec_spec_main(a(2).parse().unwrap_or(1)),
        "spec" => {
            let tier = Tier::parse(a(3)).unwrap_or(Tier::Quick);
            simkit::worker::spec_main(a(2), tier, a(4).parse().unwrap_or(1), a(5).parse().unwrap_or(0), a(6) == "--gen-only")
        }
        "check" => {
            let tier = match Tier::parse(a(3)) {
                Some(t) => t,
                None => {
                    eprintln!("usage: sim check <C06|C07|C08> <quick|thorough>");
                    std::process::exit(2);
                }
            };
            simkit::driver::check_main(a(2), tier, seed_from_env())
        }
        "replay" => simkit::driver::replay_main(a(2)),
        "dump" => simkit::driver::dump_main(a(2)),
        "sites" => simkit::driver::sites_main(a(2), Tier::parse(a(3)).unwrap_or(Tier::Quick), a(4)),
        "triage" => simkit::driver::triage_main(a(2), Tier::parse(a(3)).unwrap_or(Tier::Quick), seed_from_env(), a(4)),
        "selftest" => match a(2) {
            "determinism" => {
                let n = a(3).parse().unwrap_or(2000);
                let props: Vec<&str> = if a(4).is_empty() { vec!["C08", "C07", "C06"] } else { vec![a(4)] };
                simkit::driver::selftest_determinism(&props, n)
            }
            "rewrite" => simkit::driver::selftest_rewrite(),
            "known" => simkit::driver::selftest_known(),
            _ => {
                eprintln!("usage: sim selftest determinism [n] [prop] | rewrite | known");
                2
            }
        },
        _ => {
            eprintln!("usage: sim check|replay|selftest …");
            2
        }
    };
    std::process::exit(code);
}
