//! Process-level guards (DESIGN §2.4, §2.5): counting allocator with a proportional budget,
//! panic hook with source-text site keys, CPU-time watchdog.

use std::alloc::{GlobalAlloc, Layout, System};
use std::cell::{Cell, RefCell};
use std::collections::HashMap;
use std::sync::atomic::{AtomicBool, AtomicI64, AtomicU64, Ordering};

// ------------------------------------------------------------------------------------------
// allocator
// ------------------------------------------------------------------------------------------

thread_local! {
    static TRACK: Cell<bool> = const { Cell::new(false) };
    static LIVE: Cell<usize> = const { Cell::new(0) };
    static PEAK: Cell<usize> = const { Cell::new(0) };
    static TOTAL: Cell<u64> = const { Cell::new(0) };
    static LARGEST: Cell<usize> = const { Cell::new(0) };
    static COUNT: Cell<u64> = const { Cell::new(0) };
    static BUDGET: Cell<usize> = const { Cell::new(usize::MAX) };
}

/// Index of the run in progress (for the `A`/`H` death lines).
pub static CUR_RUN: AtomicU64 = AtomicU64::new(u64::MAX);

pub struct CountingAlloc;

#[inline]
fn account(size: usize) {
    let _ = TRACK.try_with(|t| {
        if !t.get() {
            return;
        }
        let live = LIVE.with(|l| {
            let v = l.get().saturating_add(size);
            l.set(v);
            v
        });
        PEAK.with(|p| {
            if live > p.get() {
                p.set(live)
            }
        });
        TOTAL.with(|p| p.set(p.get() + size as u64));
        COUNT.with(|p| p.set(p.get() + 1));
        LARGEST.with(|p| {
            if size > p.get() {
                p.set(size)
            }
        });
        if live > BUDGET.with(|b| b.get()) {
            t.set(false);
            alloc_death(size, live);
        }
    });
}

#[inline]
fn release(size: usize) {
    let _ = TRACK.try_with(|t| {
        if t.get() {
            LIVE.with(|l| l.set(l.get().saturating_sub(size)));
        }
    });
}

unsafe impl GlobalAlloc for CountingAlloc {
    unsafe fn alloc(&self, layout: Layout) -> *mut u8 {
        account(layout.size());
        System.alloc(layout)
    }
    unsafe fn alloc_zeroed(&self, layout: Layout) -> *mut u8 {
        account(layout.size());
        System.alloc_zeroed(layout)
    }
    unsafe fn dealloc(&self, ptr: *mut u8, layout: Layout) {
        release(layout.size());
        System.dealloc(ptr, layout)
    }
    unsafe fn realloc(&self, ptr: *mut u8, layout: Layout, new_size: usize) -> *mut u8 {
        if new_size > layout.size() {
            account(new_size - layout.size());
        } else {
            release(layout.size() - new_size);
        }
        System.realloc(ptr, layout, new_size)
    }
}

/// The allocation budget was exceeded: an allocation failure cannot be unwound, so report
/// through the result pipe with a raw write and leave (DESIGN §2.4).
#[cold]
fn alloc_death(size: usize, live: usize) -> ! {
    let bt = std::backtrace::Backtrace::force_capture().to_string();
    let (origin, client) = sites_from_backtrace(&bt);
    let caller = caller_from_backtrace(&bt).unwrap_or_default();
    let line = format!(
        "A {} {} {} {}\t{}\t{}\n",
        CUR_RUN.load(Ordering::SeqCst),
        size,
        live,
        origin.unwrap_or_else(|| "?".into()),
        client.unwrap_or_default(),
        caller
    );
    unsafe {
        libc::write(1, line.as_ptr() as *const libc::c_void, line.len());
        libc::_exit(3);
    }
}

#[derive(Clone, Copy, Debug, Default)]
pub struct AllocStats {
    pub peak: usize,
    pub total: u64,
    pub largest: usize,
    pub count: u64,
}

pub fn alloc_begin(budget: usize) {
    LIVE.with(|c| c.set(0));
    PEAK.with(|c| c.set(0));
    TOTAL.with(|c| c.set(0));
    LARGEST.with(|c| c.set(0));
    COUNT.with(|c| c.set(0));
    BUDGET.with(|c| c.set(budget));
    TRACK.with(|c| c.set(true));
}

pub fn alloc_end() -> AllocStats {
    TRACK.with(|c| c.set(false));
    AllocStats {
        peak: PEAK.with(|c| c.get()),
        total: TOTAL.with(|c| c.get()),
        largest: LARGEST.with(|c| c.get()),
        count: COUNT.with(|c| c.get()),
    }
}

/// Run `f` with allocation tracking suspended (harness bookkeeping inside a tracked run).
pub fn untracked<T>(f: impl FnOnce() -> T) -> T {
    let was = TRACK.with(|c| c.replace(false));
    let r = f();
    TRACK.with(|c| c.set(was));
    r
}

// ------------------------------------------------------------------------------------------
// panic capture and site keys
// ------------------------------------------------------------------------------------------

#[derive(Clone, Debug, Default)]
pub struct PanicRec {
    pub msg: String,
    pub file: String,
    pub line: u32,
    pub origin: String,
    pub client: String,
}

thread_local! {
    static LAST_PANIC: RefCell<Option<PanicRec>> = const { RefCell::new(None) };
    static SRC_CACHE: RefCell<HashMap<String, Vec<String>>> = RefCell::new(HashMap::new());
}

/// When set, every panic captures a backtrace so that the client frame is available too.
pub static FULL_SITES: AtomicBool = AtomicBool::new(false);

pub const REPO_SRC: &str = "/repo/src/";

pub fn install_panic_hook() {
    std::panic::set_hook(Box::new(|info| {
        untracked(|| {
            let msg = if let Some(s) = info.payload().downcast_ref::<&str>() {
                s.to_string()
            } else if let Some(s) = info.payload().downcast_ref::<String>() {
                s.clone()
            } else {
                "<non-string panic payload>".to_string()
            };
            let (file, line) = info.location().map(|l| (l.file().to_string(), l.line())).unwrap_or_default();
            if !file.starts_with(REPO_SRC) && file.contains("/verif/") || std::env::var_os("VERIF_DEBUG_PANIC").is_some() {
                // a panic in the harness itself must never be silent
                eprintln!("harness panic: {} at {}:{}", msg, file, line);
            }
            let direct = file.starts_with(REPO_SRC) && !file.ends_with("/utils.rs");
            let (origin, client) = if direct && !FULL_SITES.load(Ordering::Relaxed) {
                (render_site(&file, line), String::new())
            } else {
                let bt = std::backtrace::Backtrace::force_capture().to_string();
                let (o, c) = sites_from_backtrace(&bt);
                let o = if direct { render_site(&file, line) } else { o.unwrap_or_else(|| format!("{}:{}", file, line)) };
                (o, c.unwrap_or_default())
            };
            LAST_PANIC.with(|p| *p.borrow_mut() = Some(PanicRec { msg, file, line, origin, client }));
        })
    }));
}

pub fn take_panic() -> Option<PanicRec> {
    LAST_PANIC.with(|p| p.borrow_mut().take())
}

/// Parse the `at /path:line:col` lines of a std backtrace; return (origin, client) rendered as
/// source-text site keys.  Origin: innermost `/repo/src` frame that is not `utils.rs`.  Client:
/// innermost `/repo/src` frame in a different file from the origin.
pub fn sites_from_backtrace(bt: &str) -> (Option<String>, Option<String>) {
    let mut frames: Vec<(String, u32)> = Vec::new();
    for l in bt.lines() {
        let t = l.trim_start();
        if let Some(rest) = t.strip_prefix("at ") {
            if rest.starts_with(REPO_SRC) {
                let mut it = rest.rsplitn(3, ':');
                let _col = it.next();
                let line = it.next().and_then(|x| x.parse::<u32>().ok());
                let file = it.next();
                if let (Some(file), Some(line)) = (file, line) {
                    frames.push((file.to_string(), line));
                }
            }
        }
    }
    if frames.is_empty() {
        return (None, None);
    }
    // helpers (utils.rs) and compiler-generated code (a `#[derive(Clone)]` line, an enum variant
    // outside any fn) are attributed to their caller
    let is_helper = |f: &str, l: u32| -> bool {
        if f.ends_with("/utils.rs") {
            return true;
        }
        let site = render_site(f, l);
        let mut it = site.splitn(3, "::");
        let (_file, func, text) = (it.next(), it.next().unwrap_or(""), it.next().unwrap_or(""));
        func == "?" || func == "<derive>" || text.starts_with("#[derive")
    };
    let oi = frames.iter().position(|(f, l)| !is_helper(f, *l)).unwrap_or(0);
    let (of, ol) = frames[oi].clone();
    let client = frames[oi + 1..]
        .iter()
        .find(|(f, _)| *f != of && !f.ends_with("/utils.rs"))
        .map(|(f, l)| render_site(f, *l));
    (Some(render_site(&of, ol)), client)
}

/// The calamine frame that called the origin frame (any file): lets a known allocation be
/// recognised when the allocating statement was moved into a helper function.
pub fn caller_from_backtrace(bt: &str) -> Option<String> {
    let mut frames: Vec<(String, u32)> = Vec::new();
    for l in bt.lines() {
        let t = l.trim_start();
        if let Some(rest) = t.strip_prefix("at ") {
            if rest.starts_with(REPO_SRC) {
                let mut it = rest.rsplitn(3, ':');
                let _col = it.next();
                let line = it.next().and_then(|x| x.parse::<u32>().ok());
                let file = it.next();
                if let (Some(file), Some(line)) = (file, line) {
                    frames.push((file.to_string(), line));
                }
            }
        }
    }
    let rendered: Vec<String> = frames.iter().map(|(f, l)| render_site(f, *l)).collect();
    let helper = |f: &str, site: &str| -> bool {
        let mut it = site.splitn(3, "::");
        let (_file, func, text) = (it.next(), it.next().unwrap_or(""), it.next().unwrap_or(""));
        f.ends_with("/utils.rs") || func == "?" || func == "<derive>" || text.starts_with("#[derive")
    };
    let oi = frames.iter().zip(&rendered).position(|((f, _), s)| !helper(f, s))?;
    let ofn = site_fn(&rendered[oi]);
    frames[oi + 1..]
        .iter()
        .zip(&rendered[oi + 1..])
        .find(|((f, _), s)| !helper(f, s) && site_fn(s) != ofn)
        .map(|(_, s)| s.clone())
}

fn with_source<T>(file: &str, f: impl FnOnce(&[String]) -> T) -> T {
    SRC_CACHE.with(|c| {
        let mut c = c.borrow_mut();
        let lines = c.entry(file.to_string()).or_insert_with(|| {
            // background runs started from a binary copy read a snapshot of the sources, so that
            // later edits of /repo do not change the text their debug info points at
            let path = match std::env::var("VERIF_SRC_SNAPSHOT") {
                Ok(root) => file.replacen("/repo/", &root, 1),
                Err(_) => file.to_string(),
            };
            std::fs::read_to_string(path).map(|s| s.lines().map(|l| l.to_string()).collect()).unwrap_or_default()
        });
        f(lines)
    })
}

fn fn_name_of(line: &str) -> Option<String> {
    let t = line.trim_start();
    if t.starts_with("//") {
        return None;
    }
    let idx = if t.starts_with("fn ") {
        Some(0)
    } else {
        t.find(" fn ").map(|i| i + 1)
    }?;
    // only accept declarations: everything before `fn` must be qualifiers
    let before = &t[..idx];
    if !before.split_whitespace().all(|w| {
        w.starts_with("pub") || w == "const" || w == "unsafe" || w == "async" || w == "extern" || w.starts_with('"')
    }) {
        return None;
    }
    let rest = &t[idx + 3..];
    let name: String = rest.chars().take_while(|c| c.is_alphanumeric() || *c == '_').collect();
    if name.is_empty() {
        None
    } else {
        Some(name)
    }
}

/// `src/cfb.rs::get::self.data.resize(end, 0);` — file, enclosing fn, trimmed text of the line.
/// Source text, not line numbers, so that unrelated edits do not change the key.
pub fn render_site(file: &str, line: u32) -> String {
    let rel = file.strip_prefix("/repo/").unwrap_or(file);
    with_source(file, |lines| {
        if line == 0 || line as usize > lines.len() {
            return format!("{}::?::line {}", rel, line);
        }
        let text = lines[line as usize - 1].trim();
        let mut func = "?".to_string();
        if text.starts_with("#[derive") {
            // compiler-generated code (Clone of a struct): there is no enclosing fn
            func = "<derive>".to_string();
        } else {
            for i in (0..line as usize).rev() {
                if let Some(n) = fn_name_of(&lines[i]) {
                    func = n;
                    break;
                }
            }
        }
        format!("{}::{}::{}", rel, func, text)
    })
}

/// `file::fn` part of a rendered site.
pub fn site_fn(site: &str) -> String {
    let mut it = site.splitn(3, "::");
    match (it.next(), it.next()) {
        (Some(a), Some(b)) => format!("{}::{}", a, b),
        _ => site.to_string(),
    }
}

/// Erase digits so that `index 17 out of range for slice of length 12` matches across inputs.
pub fn erase_numbers(s: &str) -> String {
    let mut out = String::with_capacity(s.len());
    let mut in_num = false;
    for ch in s.chars() {
        if ch.is_ascii_digit() {
            if !in_num {
                out.push('#');
                in_num = true;
            }
        } else {
            in_num = false;
            out.push(ch);
        }
    }
    out
}

// ------------------------------------------------------------------------------------------
// CPU-time watchdog
// ------------------------------------------------------------------------------------------

static WD_DEADLINE_NS: AtomicI64 = AtomicI64::new(i64::MAX);
static WD_CLOCK: AtomicI64 = AtomicI64::new(-1);

fn thread_cpu_ns(clock: libc::clockid_t) -> i64 {
    let mut ts = libc::timespec { tv_sec: 0, tv_nsec: 0 };
    unsafe {
        libc::clock_gettime(clock, &mut ts);
    }
    ts.tv_sec as i64 * 1_000_000_000 + ts.tv_nsec as i64
}

pub fn my_cpu_ns() -> i64 {
    thread_cpu_ns(libc::CLOCK_THREAD_CPUTIME_ID)
}

extern "C" fn on_hang_signal(_sig: libc::c_int) {
    // Runs on the hung run thread.  Not async-signal-safe in general, but the process is about
    // to exit and the watchdog has a fallback if this handler gets stuck.
    let _ = TRACK.try_with(|t| t.set(false));
    let bt = std::backtrace::Backtrace::force_capture().to_string();
    let (o, c) = sites_from_backtrace(&bt);
    let line = format!("H {} {}\t{}\n", CUR_RUN.load(Ordering::SeqCst), o.unwrap_or_else(|| "?".into()), c.unwrap_or_default());
    unsafe {
        libc::write(1, line.as_ptr() as *const libc::c_void, line.len());
        libc::_exit(4);
    }
}

/// Start the watchdog for the calling thread (the run thread).  It never allocates.
pub fn start_watchdog() {
    let mut clock: libc::clockid_t = 0;
    let me = unsafe { libc::pthread_self() };
    unsafe {
        libc::pthread_getcpuclockid(me, &mut clock);
        libc::signal(libc::SIGUSR1, on_hang_signal as extern "C" fn(libc::c_int) as usize);
    }
    WD_CLOCK.store(clock as i64, Ordering::SeqCst);
    let me = me as usize;
    std::thread::Builder::new()
        .name("watchdog".into())
        .spawn(move || loop {
            std::thread::sleep(std::time::Duration::from_millis(20));
            let dl = WD_DEADLINE_NS.load(Ordering::SeqCst);
            if dl == i64::MAX {
                continue;
            }
            let now = thread_cpu_ns(clock);
            if now > dl {
                // ask the run thread where it is, then leave regardless
                unsafe {
                    libc::pthread_kill(me as libc::pthread_t, libc::SIGUSR1);
                }
                std::thread::sleep(std::time::Duration::from_secs(3));
                let mut buf = [0u8; 64];
                let s = fmt_hang(&mut buf, CUR_RUN.load(Ordering::SeqCst));
                unsafe {
                    libc::write(1, s.as_ptr() as *const libc::c_void, s.len());
                    libc::_exit(4);
                }
            }
        })
        .expect("spawn watchdog");
}

fn fmt_hang(buf: &mut [u8; 64], run: u64) -> &[u8] {
    // "H <run>\n" without allocating
    let mut tmp = [0u8; 20];
    let mut n = run;
    let mut i = 0;
    if n == 0 {
        tmp[0] = b'0';
        i = 1;
    }
    while n > 0 {
        tmp[i] = b'0' + (n % 10) as u8;
        n /= 10;
        i += 1;
    }
    buf[0] = b'H';
    buf[1] = b' ';
    let mut k = 2;
    while i > 0 {
        i -= 1;
        buf[k] = tmp[i];
        k += 1;
    }
    buf[k] = b'\n';
    &buf[..k + 1]
}

pub fn watchdog_arm(budget_ns: i64) {
    let now = my_cpu_ns();
    WD_DEADLINE_NS.store(now.saturating_add(budget_ns), Ordering::SeqCst);
}

pub fn watchdog_disarm() {
    WD_DEADLINE_NS.store(i64::MAX, Ordering::SeqCst);
}
