//! Worker side of the protocol (DESIGN §2.6).  A worker is single-threaded apart from its
//! watchdog; it prints `S <idx>` before and `R <json>` after each run, `D` after each chunk.
//! If the allocator or the watchdog ends the process they print `A …` / `H …` first.

use crate::engine::{Ctx, Tier};
use crate::guard;
use crate::model::Models;
use crate::spec::{RunResult, RunSpec};
use std::io::{BufRead, Write};
use std::sync::atomic::Ordering;

pub fn make_ctx(tier: Tier, seed: u64) -> Result<Ctx, String> {
    make_ctx_for("", tier, seed)
}

/// C07 and C08 add synthesized workbooks (a pure function of VERIF_SEED and their index) to the
/// fixture corpus; C06 runs on real files only.
pub fn make_ctx_for(prop: &str, tier: Tier, seed: u64) -> Result<Ctx, String> {
    let mut corpus = crate::corpus::load()?;
    if prop == "C07" || prop == "C08" {
        let per = match tier {
            Tier::Quick => [16u64, 8, 8, 8],
            Tier::Thorough => [160, 80, 80, 80],
        };
        let mut k = 0;
        for (ext, n) in ["xlsx", "ods", "xls", "xlsb"].iter().zip(per) {
            for _ in 0..n {
                let s = crate::prng::h3(seed, crate::prng::tag("synth"), k);
                k += 1;
                if let Some(fx) = crate::synth::make(&crate::synth::name_with_ext(s, ext)) {
                    corpus.push(fx);
                }
            }
        }
    }
    if prop == "C07" || prop == "C08" {
        // dual-stream xls files (fixed names: the C07 single-fault sweep covers them and must not
        // depend on VERIF_SEED)
        let n = match tier {
            Tier::Quick => 2u64,
            Tier::Thorough => 6,
        };
        for i in 0..n {
            if let Some(fx) = crate::synth::make(&format!("synth-{:016x}.dual.xls", 0xD0A1_0000u64 + i)) {
                corpus.push(fx);
            }
        }
    }
    Ok(Ctx { corpus, models: Models::default(), tier, seed, verbose: false, cpu_scale: 1, parts: Default::default(), sites: Default::default(), c06_layout: None, rotation: None, c07_sweep: None })
}

pub fn total_runs(prop: &str, ctx: &mut Ctx) -> Result<u64, String> {
    Ok(match prop {
        "C07" => crate::c07::total_runs(ctx),
        "C08" => crate::c08::total_runs(ctx),
        "C06" => crate::c06::total_runs(ctx),
        _ => return Err(format!("unknown property {}", prop)),
    })
}

pub fn run_one(prop: &str, ctx: &mut Ctx, idx: u64) -> RunResult {
    match prop {
        "C07" => crate::c07::run(ctx, idx),
        "C08" => crate::c08::run(ctx, idx),
        "C06" => crate::c06::run(ctx, idx),
        _ => RunResult { idx, outcome: "harness: unknown property".into(), ..Default::default() },
    }
}

pub fn exec_spec(ctx: &mut Ctx, spec: &RunSpec, idx: u64) -> RunResult {
    match spec.property.as_str() {
        "C07" => crate::c07::exec_spec(ctx, spec, idx),
        "C08" => crate::c08::exec_spec(ctx, spec, idx),
        "C06" => crate::c06::exec_spec(ctx, spec, idx),
        _ => RunResult { idx, outcome: "harness: unknown property".into(), ..Default::default() },
    }
}

/// The spec a seeded run finally executes (after the dry pass that places error faults).
pub fn final_spec(prop: &str, ctx: &mut Ctx, idx: u64, gen_only: bool) -> Option<RunSpec> {
    match prop {
        "C07" => Some(if gen_only { crate::c07::gen(ctx, idx).0 } else { crate::c07::final_spec(ctx, idx) }),
        "C08" => Some(if gen_only { crate::c08::gen(ctx, idx).0 } else { crate::c08::final_spec(ctx, idx) }),
        "C06" => Some(crate::c06::gen(ctx, idx)),
        _ => None,
    }
}

fn emit(out: &mut impl Write, r: &RunResult) {
    let _ = writeln!(out, "R {}", serde_json::to_string(r).unwrap());
}

pub fn worker_main(prop: &str, tier: Tier, seed: u64, verbose: bool) -> i32 {
    guard::install_panic_hook();
    guard::start_watchdog();
    let mut ctx = match make_ctx_for(prop, tier, seed) {
        Ok(c) => c,
        Err(e) => {
            eprintln!("harness error: {}", e);
            return 2;
        }
    };
    ctx.verbose = verbose;
    let stdin = std::io::stdin();
    let stdout = std::io::stdout();
    let mut out = std::io::BufWriter::with_capacity(1 << 16, stdout.lock());
    for line in stdin.lock().lines() {
        let line = match line {
            Ok(l) => l,
            Err(_) => break,
        };
        let mut it = line.split_whitespace();
        let (a, b) = match (it.next().and_then(|x| x.parse::<u64>().ok()), it.next().and_then(|x| x.parse::<u64>().ok())) {
            (Some(a), Some(b)) => (a, b),
            _ => continue,
        };
        for idx in a..b {
            let _ = writeln!(out, "S {}", idx);
            let _ = out.flush();
            guard::CUR_RUN.store(idx, Ordering::SeqCst);
            let r = run_one(prop, &mut ctx, idx);
            emit(&mut out, &r);
        }
        let _ = writeln!(out, "D");
        let _ = out.flush();
    }
    0
}

/// `exec-spec`: read one RunSpec (JSON) from stdin, execute it, print the result.
pub fn exec_spec_main(cpu_scale: i64) -> i32 {
    guard::install_panic_hook();
    guard::start_watchdog();
    guard::FULL_SITES.store(true, Ordering::SeqCst);
    let mut text = String::new();
    if std::io::Read::read_to_string(&mut std::io::stdin(), &mut text).is_err() {
        return 2;
    }
    let spec: RunSpec = match serde_json::from_str(&text) {
        Ok(s) => s,
        Err(e) => {
            eprintln!("harness error: bad spec: {}", e);
            return 2;
        }
    };
    let mut ctx = match make_ctx(Tier::Quick, 0) {
        Ok(c) => c,
        Err(e) => {
            eprintln!("harness error: {}", e);
            return 2;
        }
    };
    ctx.verbose = true;
    ctx.cpu_scale = cpu_scale;
    let stdout = std::io::stdout();
    let mut out = stdout.lock();
    let _ = writeln!(out, "S 0");
    let _ = out.flush();
    guard::CUR_RUN.store(0, Ordering::SeqCst);
    let r = exec_spec(&mut ctx, &spec, 0);
    emit(&mut out, &r);
    let _ = out.flush();
    0
}

pub fn spec_main(prop: &str, tier: Tier, seed: u64, idx: u64, gen_only: bool) -> i32 {
    guard::install_panic_hook();
    guard::start_watchdog();
    let mut ctx = match make_ctx_for(prop, tier, seed) {
        Ok(c) => c,
        Err(e) => {
            eprintln!("harness error: {}", e);
            return 2;
        }
    };
    println!("S {}", idx);
    guard::CUR_RUN.store(idx, Ordering::SeqCst);
    match final_spec(prop, &mut ctx, idx, gen_only) {
        Some(s) => {
            println!("P {}", serde_json::to_string(&s).unwrap());
            0
        }
        None => 2,
    }
}
