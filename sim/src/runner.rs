//! Executes one history (open + a sequence of API calls) against a `SimDisk` under the
//! allocation, step and CPU budgets.

use crate::guard::{self, AllocStats};
use crate::simdisk::{Delivery, Fired, SimDisk};
use crate::wb::{open_guarded, Entry, ExecState, Op, Outcome, SheetArg, Wb};
use calamine::{Data, Range};
use std::sync::Arc;

#[derive(Clone, Copy, Debug)]
pub struct Limits {
    pub alloc_budget: usize,
    pub max_events: u64,
    pub cpu_budget_ns: i64,
}

impl Limits {
    /// DESIGN §2.4: proportionality rule `64 MiB + 512 × input_len`, step rule
    /// `64 × input_len + 10^5` events.
    pub fn for_input(len: usize, cpu_budget_ns: i64) -> Limits {
        Limits {
            alloc_budget: (64usize << 20).saturating_add(len.saturating_mul(512)),
            max_events: (len as u64).saturating_mul(64).saturating_add(100_000),
            cpu_budget_ns,
        }
    }
}

pub struct OpRecord {
    pub op: Op,
    pub outcome: Outcome,
    pub fired: Fired,
    pub events: u32,
    /// typed result of Range / RangeRef when capture is on
    pub range: Option<Range<Data>>,
    /// option in force when the call was made
    pub header: Option<u32>,
    /// `(name, canonical hash)` of every entry when the call was `worksheets()`
    pub worksheets: Vec<(String, u64)>,
}

pub struct Execution {
    pub open: Outcome,
    pub open_fired: Fired,
    pub open_events: u32,
    pub kind: &'static str,
    pub sheet_names: Vec<String>,
    pub ops: Vec<OpRecord>,
    pub fired: Fired,
    pub events: u64,
    pub bytes: u64,
    pub io_sig: u64,
    pub budget_exceeded: bool,
    pub alloc: AllocStats,
    pub cpu_ns: i64,
    pub op_events: Vec<u32>,
    /// delivered-byte probes evaluated before the disk is dropped
    pub consumed: Vec<bool>,
    pub panicked: bool,
    /// (call, b'r' | b's') per event, when asked for
    pub kinds: Vec<(u32, u8)>,
}

/// The bounded API sweep the property names (DESIGN §3), from the sheet names of the opened
/// workbook.
pub fn sweep_ops(n_sheets: usize) -> Vec<Op> {
    let mut v = Vec::new();
    let k = n_sheets.min(8);
    v.push(Op::Meta);
    for i in 0..k {
        let a = SheetArg::Idx(i);
        v.push(Op::Range(a.clone()));
        v.push(Op::RangeRef(a.clone()));
        v.push(Op::Formula(a.clone()));
        v.push(Op::MergeCells(a.clone()));
    }
    // the last addressable row first: it never asks for a large rectangle, so it is reached even
    // when a lower header row over a sheet that starts billions of rows down ends the run (known
    // finding: dense Range::new)
    for h in [Some(u32::MAX), Some(0u32), Some(5)] {
        v.push(Op::SetHeader(h));
        for i in 0..k {
            v.push(Op::Range(SheetArg::Idx(i)));
            if h != Some(0) {
                v.push(Op::RangeRef(SheetArg::Idx(i)));
            }
        }
    }
    v.push(Op::SetHeader(None));
    v.push(Op::Worksheets);
    v.push(Op::RangeAt(0));
    v.push(Op::RangeAtRef(0));
    v.push(Op::MergeCellsAt(0));
    v.push(Op::LoadTables);
    v.push(Op::TableNames);
    v.push(Op::TableNamesInSheet(SheetArg::Idx(0)));
    for i in 0..8 {
        v.push(Op::TableByName(SheetArg::Idx(i)));
    }
    v.push(Op::TableByNameRef(SheetArg::Idx(0)));
    v.push(Op::LoadMerged);
    v.push(Op::MergedAll);
    v.push(Op::MergedBySheet(SheetArg::Idx(0)));
    v.push(Op::Vba);
    v.push(Op::Range(SheetArg::Lit("\u{1}no such sheet".into())));
    v
}

pub struct ExecOpts<'a> {
    pub capture: bool,
    pub stop_on_panic: bool,
    /// byte offsets of the image whose delivery should be reported in `consumed`
    pub probes: &'a [(u64, u64)],
    /// record the kind (read / seek) of every I/O event, per call
    pub record_kinds: bool,
}

pub fn execute(
    image: Arc<Vec<u8>>,
    entry: Entry,
    delivery: Delivery,
    ops: &[Op],
    limits: Limits,
    opts: &ExecOpts<'_>,
) -> Execution {
    let image_len = image.len();
    let (disk, ctl) = SimDisk::new(image, delivery, limits.max_events);
    ctl.borrow_mut().track_delivered = !opts.probes.is_empty();
    ctl.borrow_mut().record_kinds = opts.record_kinds;
    let cpu0 = guard::my_cpu_ns();
    guard::watchdog_arm(limits.cpu_budget_ns);
    guard::alloc_begin(limits.alloc_budget);

    ctl.borrow_mut().begin_op(0);
    // a history that starts with OpenWith(n) constructs the xls reader with that header row
    let open_header = match (entry, ops.first()) {
        (Entry::Xls, Some(Op::OpenWith(n))) => Some(*n),
        _ => None,
    };
    let opened = open_guarded(entry, disk, image_len, open_header);
    let open_fired = ctl.borrow().op_fired.clone();
    let open_events = ctl.borrow().op_ev;
    let mut records: Vec<OpRecord> = Vec::new();
    let mut panicked = false;
    let mut kind = "-";
    let mut names: Vec<String> = vec![];
    let open_outcome = match opened {
        Err(o) => {
            if matches!(o, Outcome::Panic(_)) {
                panicked = true;
            }
            o
        }
        Ok(mut wb) => {
            kind = wb.kind();
            names = guard::untracked(|| wb.sheet_names());
            let mut st = ExecState { capture: opts.capture, header: open_header, ..Default::default() };
            // expand the sweep marker
            let expanded: Vec<Op> = guard::untracked(|| {
                let mut v = Vec::new();
                for op in ops {
                    if matches!(op, Op::Sweep) {
                        if matches!(wb, Wb::Vba(_)) {
                            v.push(Op::Vba);
                        } else {
                            v.extend(sweep_ops(names.len()));
                        }
                    } else {
                        v.push(op.clone());
                    }
                }
                v
            });
            for (i, op) in expanded.iter().enumerate() {
                ctl.borrow_mut().begin_op(i as u32 + 1);
                let header = st.header;
                st.last_range = None;
                let outcome = wb.exec(op, &mut st);
                let c = ctl.borrow();
                let rec = OpRecord {
                    op: op.clone(),
                    fired: c.op_fired.clone(),
                    events: c.op_ev,
                    range: st.last_range.take(),
                    header,
                    outcome,
                    worksheets: if matches!(op, Op::Worksheets) { std::mem::take(&mut st.last_worksheets) } else { vec![] },
                };
                drop(c);
                let is_panic = matches!(rec.outcome, Outcome::Panic(_));
                guard::untracked(|| records.push(rec));
                if is_panic {
                    panicked = true;
                    if opts.stop_on_panic {
                        break;
                    }
                }
                if ctl.borrow().budget_exceeded {
                    break;
                }
            }
            drop(wb);
            Outcome::Ok(crate::wb::Canon { h: 0, brief: "opened".into() })
        }
    };
    let alloc = guard::alloc_end();
    guard::watchdog_disarm();
    let cpu_ns = guard::my_cpu_ns() - cpu0;
    let c = ctl.borrow();
    let consumed = opts.probes.iter().map(|(a, b)| c.any_delivered(*a, *b)).collect();
    Execution {
        open: open_outcome,
        open_fired,
        open_events,
        kind,
        sheet_names: names,
        ops: records,
        fired: c.fired.clone(),
        events: c.ev,
        bytes: c.bytes,
        io_sig: c.sig.0,
        budget_exceeded: c.budget_exceeded,
        alloc,
        cpu_ns,
        op_events: c.op_events.clone(),
        consumed,
        panicked,
        kinds: c.kinds.clone(),
    }
}

pub fn fired_array(f: &Fired) -> [u64; 6] {
    [f.short_reads, f.eintr, f.eio, f.eio_sticky, f.seek_err, f.dead_hits]
}
