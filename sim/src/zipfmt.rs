//! Harness-side zip container reader/writer.  Stored-content faults of layer 1 damage a part
//! *decompressed* and then rewrite the archive validly (correct CRC, sizes, offsets), so that
//! the damage reaches the parser instead of dying in a CRC or inflate check (DESIGN §2.3).

use crate::spec::Pack;
use std::io::{Read, Write};

#[derive(Clone, Debug)]
pub struct ZEntry {
    pub name: String,
    pub method: u16,
    pub flags: u16,
    pub crc: u32,
    pub usize_: u32,
    /// raw (compressed) bytes as stored
    pub comp: Vec<u8>,
}

fn u16le(b: &[u8], o: usize) -> Option<u16> {
    Some(u16::from_le_bytes([*b.get(o)?, *b.get(o + 1)?]))
}
fn u32le(b: &[u8], o: usize) -> Option<u32> {
    Some(u32::from_le_bytes([*b.get(o)?, *b.get(o + 1)?, *b.get(o + 2)?, *b.get(o + 3)?]))
}

/// Parse the central directory of a (small, non-zip64) archive.
pub fn parse(img: &[u8]) -> Option<Vec<ZEntry>> {
    if img.len() < 22 {
        return None;
    }
    let mut eocd = None;
    let lo = img.len().saturating_sub(22 + 65536);
    let mut i = img.len() - 22;
    loop {
        if u32le(img, i)? == 0x0605_4b50 {
            eocd = Some(i);
            break;
        }
        if i == lo {
            break;
        }
        i -= 1;
    }
    let e = eocd?;
    let n = u16le(img, e + 10)? as usize;
    let mut p = u32le(img, e + 16)? as usize;
    let mut out = Vec::with_capacity(n);
    for _ in 0..n {
        if u32le(img, p)? != 0x0201_4b50 {
            return None;
        }
        let flags = u16le(img, p + 8)?;
        let method = u16le(img, p + 10)?;
        let crc = u32le(img, p + 16)?;
        let csize = u32le(img, p + 20)? as usize;
        let usize_ = u32le(img, p + 24)?;
        let nlen = u16le(img, p + 28)? as usize;
        let elen = u16le(img, p + 30)? as usize;
        let clen = u16le(img, p + 32)? as usize;
        let lho = u32le(img, p + 42)? as usize;
        let name = String::from_utf8_lossy(img.get(p + 46..p + 46 + nlen)?).into_owned();
        // local header
        if u32le(img, lho)? != 0x0403_4b50 {
            return None;
        }
        let lnlen = u16le(img, lho + 26)? as usize;
        let lelen = u16le(img, lho + 28)? as usize;
        let ds = lho + 30 + lnlen + lelen;
        let comp = img.get(ds..ds + csize)?.to_vec();
        out.push(ZEntry { name, method, flags: flags & 0x0800, crc, usize_, comp });
        p += 46 + nlen + elen + clen;
    }
    Some(out)
}

pub fn inflate(e: &ZEntry) -> Option<Vec<u8>> {
    match e.method {
        0 => Some(e.comp.clone()),
        8 => {
            let mut d = flate2::read::DeflateDecoder::new(&e.comp[..]);
            let mut v = Vec::with_capacity((e.usize_ as usize).min(64 << 20));
            d.read_to_end(&mut v).ok()?;
            Some(v)
        }
        _ => None,
    }
}

pub fn make_entry(name: &str, data: &[u8], pack: Pack) -> ZEntry {
    let crc = crc32fast::hash(data);
    match pack {
        Pack::Stored => ZEntry { name: name.to_string(), method: 0, flags: 0, crc, usize_: data.len() as u32, comp: data.to_vec() },
        Pack::Deflated => {
            let mut enc = flate2::write::DeflateEncoder::new(Vec::new(), flate2::Compression::fast());
            let _ = enc.write_all(data);
            let comp = enc.finish().unwrap_or_default();
            ZEntry { name: name.to_string(), method: 8, flags: 0, crc, usize_: data.len() as u32, comp }
        }
    }
}

/// Write a valid archive.  Returns the image and, per entry, the byte range of its data.
pub fn write(entries: &[ZEntry]) -> (Vec<u8>, Vec<(String, u64, u64)>) {
    let mut out: Vec<u8> = Vec::new();
    let mut ranges = Vec::new();
    let mut offsets = Vec::new();
    for e in entries {
        offsets.push(out.len() as u32);
        out.extend_from_slice(&0x0403_4b50u32.to_le_bytes());
        out.extend_from_slice(&20u16.to_le_bytes());
        out.extend_from_slice(&e.flags.to_le_bytes());
        out.extend_from_slice(&e.method.to_le_bytes());
        out.extend_from_slice(&0u16.to_le_bytes()); // time
        out.extend_from_slice(&0x21u16.to_le_bytes()); // date 1980-01-01
        out.extend_from_slice(&e.crc.to_le_bytes());
        out.extend_from_slice(&(e.comp.len() as u32).to_le_bytes());
        out.extend_from_slice(&e.usize_.to_le_bytes());
        out.extend_from_slice(&(e.name.len() as u16).to_le_bytes());
        out.extend_from_slice(&0u16.to_le_bytes());
        out.extend_from_slice(e.name.as_bytes());
        let a = out.len() as u64;
        out.extend_from_slice(&e.comp);
        ranges.push((e.name.clone(), a, out.len() as u64));
    }
    let cd_start = out.len() as u32;
    for (e, off) in entries.iter().zip(&offsets) {
        out.extend_from_slice(&0x0201_4b50u32.to_le_bytes());
        out.extend_from_slice(&20u16.to_le_bytes()); // made by
        out.extend_from_slice(&20u16.to_le_bytes()); // needed
        out.extend_from_slice(&e.flags.to_le_bytes());
        out.extend_from_slice(&e.method.to_le_bytes());
        out.extend_from_slice(&0u16.to_le_bytes());
        out.extend_from_slice(&0x21u16.to_le_bytes());
        out.extend_from_slice(&e.crc.to_le_bytes());
        out.extend_from_slice(&(e.comp.len() as u32).to_le_bytes());
        out.extend_from_slice(&e.usize_.to_le_bytes());
        out.extend_from_slice(&(e.name.len() as u16).to_le_bytes());
        out.extend_from_slice(&0u16.to_le_bytes()); // extra
        out.extend_from_slice(&0u16.to_le_bytes()); // comment
        out.extend_from_slice(&0u16.to_le_bytes()); // disk
        out.extend_from_slice(&0u16.to_le_bytes()); // iattr
        out.extend_from_slice(&0u32.to_le_bytes()); // eattr
        out.extend_from_slice(&off.to_le_bytes());
        out.extend_from_slice(e.name.as_bytes());
    }
    let cd_len = out.len() as u32 - cd_start;
    out.extend_from_slice(&0x0605_4b50u32.to_le_bytes());
    out.extend_from_slice(&0u16.to_le_bytes());
    out.extend_from_slice(&0u16.to_le_bytes());
    out.extend_from_slice(&(entries.len() as u16).to_le_bytes());
    out.extend_from_slice(&(entries.len() as u16).to_le_bytes());
    out.extend_from_slice(&cd_len.to_le_bytes());
    out.extend_from_slice(&cd_start.to_le_bytes());
    out.extend_from_slice(&0u16.to_le_bytes());
    (out, ranges)
}

/// Offsets of the structural records of an archive, for targeted raw faults:
/// (end-of-central-directory offset, central-directory entry offsets, local-header offsets).
pub fn offsets(img: &[u8]) -> Option<(usize, Vec<usize>, Vec<usize>)> {
    if img.len() < 22 {
        return None;
    }
    let lo = img.len().saturating_sub(22 + 65536);
    let mut i = img.len() - 22;
    let e = loop {
        if u32le(img, i)? == 0x0605_4b50 {
            break i;
        }
        if i == lo {
            return None;
        }
        i -= 1;
    };
    let n = u16le(img, e + 10)? as usize;
    let mut p = u32le(img, e + 16)? as usize;
    let mut cds = Vec::new();
    let mut lhs = Vec::new();
    for _ in 0..n {
        if u32le(img, p)? != 0x0201_4b50 {
            break;
        }
        cds.push(p);
        lhs.push(u32le(img, p + 42)? as usize);
        let nlen = u16le(img, p + 28)? as usize;
        let elen = u16le(img, p + 30)? as usize;
        let clen = u16le(img, p + 32)? as usize;
        p += 46 + nlen + elen + clen;
    }
    Some((e, cds, lhs))
}
