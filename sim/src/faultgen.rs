//! Enumerates the stored-content fault sites of a fixture (DESIGN §2.3, §3).  Everything here
//! is a pure function of the fixture bytes and the tier, so the sweep is the same in every
//! process and for every `VERIF_SEED`.

use crate::cfbfmt::{self, Layout, ENDOFCHAIN, FREESECT};
use crate::corpus::{Fixture, Format};
use crate::engine::Tier;
use crate::image::Parts;
use crate::prng::{hbytes, Chooser};
use crate::spec::{Edit, Layer, Pack, StoredFault};
use crate::zipfmt;

#[derive(Clone, Debug)]
pub struct Site {
    /// the image is this part of the fixture (a nested compound file), opened with `VbaProject::new`
    pub inner: Option<String>,
    pub fault: StoredFault,
}

pub struct Caps {
    pub trunc_points: usize,
    pub flips: usize,
    pub sectors: usize,
    pub fat_entries: usize,
    pub dir_entries: usize,
    pub rec_headers_per_type: usize,
    pub rec_fields_per_type: usize,
    pub tokens_per_key: usize,
    pub token_values: usize,
    pub part_truncs: usize,
    pub parts: usize,
}

impl Caps {
    pub fn of(t: Tier) -> Caps {
        match t {
            Tier::Quick => Caps {
                trunc_points: 36,
                flips: 16,
                sectors: 4,
                fat_entries: 40,
                dir_entries: 10,
                rec_headers_per_type: 2,
                rec_fields_per_type: 1,
                tokens_per_key: 1,
                token_values: 5,
                part_truncs: 10,
                parts: 14,
            },
            Tier::Thorough => Caps {
                trunc_points: 1500,
                flips: 256,
                sectors: 48,
                fat_entries: 1200,
                dir_entries: 64,
                rec_headers_per_type: 24,
                rec_fields_per_type: 6,
                tokens_per_key: 6,
                token_values: 12,
                part_truncs: 160,
                parts: 64,
            },
        }
    }
}

fn raw(edit: Edit, why: String) -> StoredFault {
    StoredFault { layer: Layer::Raw, edit: Some(edit), why }
}

fn set_u32(off: usize, v: u32) -> Edit {
    Edit::Set { off, bytes: v.to_le_bytes().to_vec() }
}
fn set_u16(off: usize, v: u16) -> Edit {
    Edit::Set { off, bytes: v.to_le_bytes().to_vec() }
}

// ------------------------------------------------------------------------------------------
// layer 0: raw image
// ------------------------------------------------------------------------------------------

pub fn raw_truncations(img: &[u8], boundaries: &[usize], caps: &Caps, ch: &mut Chooser) -> Vec<StoredFault> {
    let len = img.len();
    let mut pts: Vec<usize> = vec![0, 1, 2, 4, 7, 8, 16, 29, 30, 31, 75, 76, 100, 511, 512, 513, 1023, 1024, 1536];
    for k in [1usize, 2, 3, 4, 8, 21, 22, 23, 46, 64, 100] {
        pts.push(len.saturating_sub(k));
    }
    pts.push(len / 2);
    pts.push(len / 3);
    if len <= 16 * 1024 && caps.trunc_points >= 1000 {
        pts.extend(0..len);
    } else {
        for b in boundaries.iter().take(caps.trunc_points / 3) {
            for d in [-2i64, -1, 0, 1, 2] {
                let p = *b as i64 + d;
                if p >= 0 {
                    pts.push(p as usize);
                }
            }
        }
        while pts.len() < caps.trunc_points && len > 0 {
            pts.push(ch.below(len as u64) as usize);
        }
    }
    pts.retain(|p| *p < len);
    pts.sort();
    pts.dedup();
    if pts.len() > caps.trunc_points.max(40) && !(len <= 16 * 1024 && caps.trunc_points >= 1000) {
        // keep a deterministic subset
        let keep = caps.trunc_points.max(40);
        let step = pts.len() as f64 / keep as f64;
        pts = (0..keep).map(|i| pts[(i as f64 * step) as usize]).collect();
        pts.dedup();
    }
    pts.into_iter().map(|p| raw(Edit::Trunc { len: p }, format!("raw:truncate at {} of {}", p, len))).collect()
}

pub fn raw_generic(img: &[u8], caps: &Caps, ch: &mut Chooser) -> Vec<StoredFault> {
    let len = img.len();
    let mut v = Vec::new();
    if len == 0 {
        return v;
    }
    for _ in 0..caps.flips {
        let off = ch.below(len as u64) as usize;
        let bit = ch.below(8) as u8;
        v.push(raw(Edit::Set { off, bytes: vec![img[off] ^ (1 << bit)] }, format!("raw:bitflip offset {} bit {}", off, bit)));
    }
    for _ in 0..caps.flips / 2 {
        let off = ch.below(len as u64) as usize;
        let val = *ch.pick(&[0x00u8, 0xFF, 0x7F, 0x80]);
        v.push(raw(Edit::Set { off, bytes: vec![val] }, format!("raw:byteset offset {} = {:#04x}", off, val)));
    }
    let nsec = len / 512;
    if nsec >= 2 {
        for _ in 0..caps.sectors {
            let a = ch.below(nsec as u64) as usize;
            let b = ch.below(nsec as u64) as usize;
            v.push(raw(Edit::Set { off: a * 512, bytes: vec![0; 512] }, format!("raw:sector-zero sector at {} (lost write)", a * 512)));
            if a != b {
                v.push(raw(
                    Edit::Set { off: a * 512, bytes: img[b * 512..b * 512 + 512].to_vec() },
                    format!("raw:sector-dup sector at {} overwritten with the one at {} (misdirected write)", a * 512, b * 512),
                ));
            }
        }
    }
    v.push(raw(Edit::Insert { off: len, bytes: vec![0xAB; 777] }, "raw:append 777 bytes of garbage".into()));
    v.push(raw(Edit::Insert { off: 0, bytes: vec![0; 1] }, "raw:prepend one byte (everything shifted)".into()));
    v
}

const CFB_VALUES: [u32; 7] = [0, 1, 0x7FFF_FFFF, 0xFFFF_FFFA, ENDOFCHAIN, FREESECT, 0x0010_0000];

/// Targeted sites of a compound file: header fields, DIFAT, FAT, mini-FAT and directory entries.
pub fn cfb_sites(img: &[u8], l: &Layout, caps: &Caps, ch: &mut Chooser) -> Vec<StoredFault> {
    let mut v = Vec::new();
    let beyond = l.n_sectors as u32 + 1000;
    // header
    for (off, name, wide) in [
        (24usize, "minor version", false),
        (26, "major version", false),
        (28, "byte order", false),
        (30, "sector shift", false),
        (32, "mini sector shift", false),
        (40, "number of directory sectors", true),
        (44, "number of FAT sectors", true),
        (48, "first directory sector", true),
        (56, "mini stream cutoff", true),
        (60, "first mini FAT sector", true),
        (64, "number of mini FAT sectors", true),
        (68, "first DIFAT sector", true),
        (72, "number of DIFAT sectors", true),
    ] {
        if wide {
            let orig = u32::from_le_bytes(img[off..off + 4].try_into().unwrap());
            for val in CFB_VALUES.iter().copied().chain([orig.wrapping_add(1), orig.wrapping_sub(1), beyond]) {
                if val != orig {
                    v.push(raw(set_u32(off, val), format!("cfb:header {} {:#x} -> {:#x}", name, orig, val)));
                }
            }
        } else {
            let orig = u16::from_le_bytes(img[off..off + 2].try_into().unwrap());
            for val in [0u16, 1, 3, 4, 6, 9, 0xC, 0xFFFF, 0xFFFE, orig.wrapping_add(1)] {
                if val != orig {
                    v.push(raw(set_u16(off, val), format!("cfb:header {} {:#x} -> {:#x}", name, orig, val)));
                }
            }
        }
    }
    // DIFAT in the header: used entries and the first unused one
    for i in 0..(l.difat_in_header + 1).min(109) {
        let off = 76 + 4 * i;
        let orig = u32::from_le_bytes(img[off..off + 4].try_into().unwrap());
        for val in [0u32, beyond, 0x7FFF_FFFF, ENDOFCHAIN, FREESECT, 0xFFFF_FFF0, orig.wrapping_add(1)] {
            if val != orig {
                v.push(raw(set_u32(off, val), format!("cfb:difat header entry {} {:#x} -> {:#x}", i, orig, val)));
            }
        }
    }
    // FAT entries: those on the directory / mini FAT / mini stream chains first, then every stream's
    // first sectors, then a spread
    let mut fat_idx: Vec<usize> = Vec::new();
    for c in [&l.dir_chain, &l.minifat_chain, &l.ministream_chain] {
        fat_idx.extend(c.iter().take(6).map(|s| *s as usize));
    }
    for e in &l.dir {
        if e.typ == 2 && e.size >= 4096 {
            fat_idx.extend(l.chain_of(e.start).iter().take(4).map(|s| *s as usize));
        }
    }
    fat_idx.extend(l.fat_sectors.iter().map(|s| *s as usize));
    let nfat = l.fat.len().min(l.n_sectors + 8);
    while fat_idx.len() < caps.fat_entries && nfat > 0 && fat_idx.len() < nfat * 2 {
        fat_idx.push(ch.below(nfat as u64) as usize);
    }
    fat_idx.sort();
    fat_idx.dedup();
    fat_idx.truncate(caps.fat_entries);
    for i in fat_idx {
        let off = match l.fat_entry_off(i) {
            Some(o) if o + 4 <= img.len() => o,
            _ => continue,
        };
        let orig = l.fat[i];
        let earlier = if i > 0 { (i - 1) as u32 } else { 0 };
        for (val, what) in [
            (i as u32, "itself (1-cycle)"),
            (earlier, "the previous sector (cycle)"),
            (0, "sector 0"),
            (beyond, "a sector beyond EOF (dangling)"),
            (FREESECT, "FREESECT"),
            (ENDOFCHAIN, "ENDOFCHAIN"),
            (0x7FFF_FFFF, "0x7FFFFFFF"),
            (0xFFFF_FFFA, "0xFFFFFFFA"),
        ] {
            if val != orig {
                v.push(raw(set_u32(off, val), format!("cfb:fat entry {} {:#x} -> {}", i, orig, what)));
            }
        }
    }
    // mini FAT
    let nmini = l.minifat.len();
    let mut mini_idx: Vec<usize> = l.dir.iter().filter(|e| e.typ == 2 && e.size < 4096).map(|e| e.start as usize).filter(|s| *s < nmini).collect();
    while mini_idx.len() < (caps.fat_entries / 3).min(nmini) {
        mini_idx.push(ch.below(nmini as u64) as usize);
    }
    mini_idx.sort();
    mini_idx.dedup();
    for i in mini_idx {
        let off = match l.minifat_entry_off(i) {
            Some(o) if o + 4 <= img.len() => o,
            _ => continue,
        };
        let orig = l.minifat[i];
        for (val, what) in [
            (i as u32, "itself (1-cycle)"),
            (0, "mini sector 0"),
            (nmini as u32 + 1000, "beyond the mini FAT (dangling)"),
            (FREESECT, "FREESECT"),
            (ENDOFCHAIN, "ENDOFCHAIN"),
            (0x7FFF_FFFF, "0x7FFFFFFF"),
        ] {
            if val != orig {
                v.push(raw(set_u32(off, val), format!("cfb:minifat entry {} {:#x} -> {}", i, orig, what)));
            }
        }
    }
    // directory entries
    for e in l.dir.iter().take(caps.dir_entries) {
        let o = e.offset;
        if o + 128 > img.len() {
            continue;
        }
        let nm = if e.name.is_empty() { "<unnamed>".to_string() } else { e.name.clone() };
        for val in [0u32, e.start.wrapping_add(1), beyond, ENDOFCHAIN, FREESECT, 0x7FFF_FFFF, 0xFFFF_FFFA] {
            if val != e.start {
                v.push(raw(set_u32(o + 116, val), format!("cfb:dir entry {} ({}) start sector {:#x} -> {:#x}", e.index, nm, e.start, val)));
            }
        }
        let sz = e.size as u32;
        for val in [0u32, 1, 63, 64, 4095, 4096, 4097, sz.wrapping_add(1), sz.wrapping_add(l.ssz as u32), sz.wrapping_mul(2), 0x7FFF_FFFF, 0xFFFF_FFFF, 0x4000_0000] {
            if val != sz {
                v.push(raw(set_u32(o + 120, val), format!("cfb:dir entry {} ({}) size {} -> {}", e.index, nm, sz, val)));
            }
        }
        v.push(raw(set_u32(o + 124, 1), format!("cfb:dir entry {} ({}) size high dword -> 1", e.index, nm)));
        v.push(raw(set_u32(o + 124, 0xFFFF_FFFF), format!("cfb:dir entry {} ({}) size high dword -> 0xFFFFFFFF", e.index, nm)));
        v.push(raw(Edit::Set { off: o, bytes: vec![b'Z', 0] }, format!("cfb:dir entry {} ({}) first name character changed", e.index, nm)));
        v.push(raw(Edit::Set { off: o, bytes: vec![0; 64] }, format!("cfb:dir entry {} ({}) name zeroed", e.index, nm)));
        v.push(raw(Edit::Set { off: o, bytes: vec![0xD8, 0xD8].repeat(32) }, format!("cfb:dir entry {} ({}) name = unpaired surrogates", e.index, nm)));
        for t in [0u8, 1, 2, 5, 0xFF] {
            if t != e.typ {
                v.push(raw(Edit::Set { off: o + 66, bytes: vec![t] }, format!("cfb:dir entry {} ({}) object type {} -> {}", e.index, nm, e.typ, t)));
            }
        }
    }
    // a directory chain that ends in the middle of an entry: truncate inside the last directory sector
    if let Some(last) = l.dir_chain.last() {
        let off = l.sector_off(*last);
        for d in [1usize, 64, 100, 127, 128, 200] {
            if off + d < img.len() {
                v.push(raw(Edit::Trunc { len: off + d }, format!("cfb:dir truncated {} bytes into the last directory sector", d)));
            }
        }
    }
    v
}

/// Compound files whose allocation structures alias each other: every DIFAT entry (109 in the
/// header plus `k` appended DIFAT sectors) names the same FAT sector, which inflates the FAT the
/// reader builds without adding sectors to the file, and one chain is made cyclic.  A reader that
/// bounds chains by the size of the FAT then copies the same sectors (109 + 127k) * 128 times.
pub fn cfb_bombs(img: &[u8], l: &Layout, k: u32) -> Vec<Vec<StoredFault>> {
    let mut out = Vec::new();
    let fat0 = match l.fat_sectors.first() {
        Some(s) => *s,
        None => return out,
    };
    let ssz = l.ssz;
    let aligned = (l.n_sectors + 1) * ssz;
    let mut base: Vec<StoredFault> = Vec::new();
    if aligned > img.len() {
        base.push(raw(Edit::Insert { off: img.len(), bytes: vec![0; aligned - img.len()] }, "cfb:difat-alias pad to a sector boundary".into()));
    }
    let mut pattern = Vec::with_capacity(ssz);
    for _ in 0..ssz / 4 {
        pattern.extend_from_slice(&fat0.to_le_bytes());
    }
    base.push(raw(
        Edit::Repeat { off: aligned, pattern, count: k, start: l.n_sectors as i64 + 1, step: 1, le: vec![((ssz - 4) as u16, 4)] },
        format!("cfb:difat-alias {} appended DIFAT sectors whose entries all name FAT sector {}", k, fat0),
    ));
    base.push(raw(set_u32(68, l.n_sectors as u32), "cfb:difat-alias first DIFAT sector -> the appended ones".into()));
    base.push(raw(set_u32(72, k), "cfb:difat-alias number of DIFAT sectors".into()));
    let mut hdr = Vec::new();
    for _ in 0..109 {
        hdr.extend_from_slice(&fat0.to_le_bytes());
    }
    base.push(raw(Edit::Set { off: 76, bytes: hdr }, format!("cfb:difat-alias all 109 header DIFAT entries -> FAT sector {}", fat0)));
    // which chain is made cyclic
    let mut targets: Vec<(u32, String)> = Vec::new();
    if let Some(s) = l.dir_chain.first() {
        targets.push((*s, "directory chain".into()));
    }
    if let Some(s) = l.ministream_chain.first() {
        targets.push((*s, "mini stream chain".into()));
    }
    if let Some(s) = l.minifat_chain.first() {
        targets.push((*s, "mini FAT chain".into()));
    }
    if let Some(e) = l.dir.iter().filter(|e| e.typ == 2 && e.size >= 4096).max_by_key(|e| e.size) {
        targets.push((e.start, format!("chain of stream {}", e.name)));
    }
    for (s, what) in targets {
        if let Some(off) = l.fat_entry_off(s as usize) {
            if off + 4 <= img.len() {
                let mut g = base.clone();
                g.push(raw(set_u32(off, s), format!("cfb:difat-alias {} made a 1-cycle at sector {}", what, s)));
                out.push(g);
            }
        }
    }
    out.push(base);
    out
}

/// Targeted raw sites of a zip container: end-of-central-directory, central directory and
/// local header fields.
pub fn zip_raw_sites(img: &[u8], caps: &Caps) -> Vec<StoredFault> {
    let mut v = Vec::new();
    let (eocd, cds, lhs) = match zipfmt::offsets(img) {
        Some(x) => x,
        None => return v,
    };
    for (off, name, wide) in [(8usize, "entries on this disk", false), (10, "total entries", false), (12, "central directory size", true), (16, "central directory offset", true), (20, "comment length", false)] {
        if wide {
            let o = eocd + off;
            let orig = u32::from_le_bytes(img[o..o + 4].try_into().unwrap());
            for val in [0u32, 1, orig.wrapping_add(1), orig.wrapping_sub(1), 0x7FFF_FFFF, 0xFFFF_FFFF, img.len() as u32] {
                if val != orig {
                    v.push(raw(set_u32(o, val), format!("zip:eocd {} {} -> {}", name, orig, val)));
                }
            }
        } else {
            let o = eocd + off;
            let orig = u16::from_le_bytes(img[o..o + 2].try_into().unwrap());
            for val in [0u16, 1, orig.wrapping_add(1), orig.wrapping_sub(1), 0xFFFF] {
                if val != orig {
                    v.push(raw(set_u16(o, val), format!("zip:eocd {} {} -> {}", name, orig, val)));
                }
            }
        }
    }
    for (k, cd) in cds.iter().enumerate().take(caps.parts) {
        for (off, name, wide) in [(8usize, "flags", false), (10, "method", false), (16, "crc", true), (20, "compressed size", true), (24, "uncompressed size", true), (28, "name length", false), (30, "extra length", false), (42, "local header offset", true)] {
            let o = cd + off;
            if wide {
                let orig = u32::from_le_bytes(img[o..o + 4].try_into().unwrap());
                for val in [0u32, orig.wrapping_add(1), 0x7FFF_FFFF, 0xFFFF_FFFF, orig.wrapping_mul(1000)] {
                    if val != orig {
                        v.push(raw(set_u32(o, val), format!("zip:central entry {} {} {} -> {}", k, name, orig, val)));
                    }
                }
            } else {
                let orig = u16::from_le_bytes(img[o..o + 2].try_into().unwrap());
                for val in [0u16, 1, 8, 9, 12, 14, 93, 99, orig.wrapping_add(1), 0xFFFF] {
                    if val != orig {
                        v.push(raw(set_u16(o, val), format!("zip:central entry {} {} {} -> {}", k, name, orig, val)));
                    }
                }
            }
        }
    }
    for (k, lh) in lhs.iter().enumerate().take(caps.parts) {
        for (off, name) in [(6usize, "flags"), (8, "method"), (26, "name length"), (28, "extra length")] {
            let o = lh + off;
            if o + 2 > img.len() {
                continue;
            }
            let orig = u16::from_le_bytes(img[o..o + 2].try_into().unwrap());
            for val in [0u16, 1, 8, orig.wrapping_add(1), 0xFFFF] {
                if val != orig {
                    v.push(raw(set_u16(o, val), format!("zip:local header {} {} {} -> {}", k, name, orig, val)));
                }
            }
        }
        let o = lh + 18;
        if o + 8 <= img.len() {
            for val in [0u32, 0xFFFF_FFFF, 0x7FFF_FFFF] {
                v.push(raw(set_u32(o, val), format!("zip:local header {} compressed size -> {}", k, val)));
                v.push(raw(set_u32(o + 4, val), format!("zip:local header {} uncompressed size -> {}", k, val)));
            }
        }
    }
    v
}

// ------------------------------------------------------------------------------------------
// layer 1: logical parts
// ------------------------------------------------------------------------------------------

fn part_fault(part: &str, pack: Pack, edit: Edit, why: String) -> StoredFault {
    StoredFault { layer: Layer::ZipPart { part: part.to_string(), pack }, edit: Some(edit), why }
}

pub fn zip_structural(names: &[String], sizes: &[usize]) -> Vec<StoredFault> {
    let mut v = Vec::new();
    for (i, n) in names.iter().enumerate() {
        v.push(StoredFault { layer: Layer::ZipPartDelete { part: n.clone() }, edit: None, why: format!("zip:part-delete {}", n) });
        v.push(part_fault(n, Pack::Stored, Edit::Trunc { len: 0 }, format!("zip:part-empty {}", n)));
        v.push(part_fault(n, Pack::Deflated, Edit::Trunc { len: sizes[i] / 2 }, format!("part:truncate {} to half ({} bytes)", n, sizes[i] / 2)));
        let up = n.to_uppercase();
        if up != *n {
            v.push(StoredFault { layer: Layer::ZipPartRename { part: n.clone(), to: up.clone() }, edit: None, why: format!("zip:part-rename {} -> {}", n, up) });
        }
        let next = &names[(i + 1) % names.len()];
        if next != n {
            v.push(StoredFault {
                layer: Layer::ZipPartSwap { part: n.clone(), with: next.clone() },
                edit: None,
                why: format!("zip:part-swap {} <-> {} (type confusion)", n, next),
            });
        }
    }
    v
}

const NUM_EXTREMES: [&str; 14] =
    ["0", "-1", "1", "4294967295", "4294967296", "2147483648", "18446744073709551615", "99999999999999999999", "1e308", "1e-320", "NaN", "", "16385", "1048577"];
const A1_EXTREMES: [&str; 13] =
    ["XFD1048576", "A0", "A1048577", "ZZZZ99999999", "A4294967296", "A99999999999999999999", "1A", "A", "A1:A1048576", "B2:A1", "A1:XFD1048576", "A1:B2:C3", "XFE1"];

fn is_numeric_token(t: &[u8]) -> bool {
    !t.is_empty() && t.len() <= 24 && t.iter().all(|c| c.is_ascii_digit() || matches!(c, b'.' | b'-' | b'+' | b'e' | b'E')) && t.iter().any(|c| c.is_ascii_digit())
}

fn is_a1_token(t: &[u8]) -> bool {
    fn cell(t: &[u8]) -> bool {
        let t: Vec<u8> = t.iter().copied().filter(|c| *c != b'$').collect();
        let letters = t.iter().take_while(|c| c.is_ascii_uppercase()).count();
        letters >= 1 && letters <= 3 && t.len() > letters && t.len() - letters <= 7 && t[letters..].iter().all(|c| c.is_ascii_digit())
    }
    if t.is_empty() || t.len() > 24 {
        return false;
    }
    let mut parts = t.split(|c| *c == b':');
    match (parts.next(), parts.next(), parts.next()) {
        (Some(a), None, _) => cell(a),
        (Some(a), Some(b), None) => cell(a) && cell(b),
        _ => false,
    }
}

/// Numeric and A1-reference tokens of an XML part: attribute values and text nodes.
/// Returns (offset, len, key, is_a1).
pub fn xml_tokens(data: &[u8]) -> Vec<(usize, usize, String, bool)> {
    let mut out = Vec::new();
    let n = data.len();
    let mut i = 0;
    let mut last_tag = String::new();
    while i < n {
        if data[i] == b'<' {
            // tag: scan attributes
            let end = match data[i..].iter().position(|c| *c == b'>') {
                Some(p) => i + p,
                None => break,
            };
            let tag = &data[i + 1..end];
            let name_end = tag.iter().position(|c| c.is_ascii_whitespace() || *c == b'/').unwrap_or(tag.len());
            let tname = String::from_utf8_lossy(&tag[..name_end]).into_owned();
            if !tname.starts_with('/') && !tname.starts_with('?') && !tname.starts_with('!') {
                last_tag = tname.clone();
                let mut j = i + 1 + name_end;
                while j < end {
                    // attribute name
                    while j < end && (data[j].is_ascii_whitespace() || data[j] == b'/') {
                        j += 1;
                    }
                    let ns = j;
                    while j < end && data[j] != b'=' && !data[j].is_ascii_whitespace() {
                        j += 1;
                    }
                    let aname = String::from_utf8_lossy(&data[ns..j]).into_owned();
                    while j < end && data[j] != b'"' && data[j] != b'\'' {
                        j += 1;
                    }
                    if j >= end {
                        break;
                    }
                    let q = data[j];
                    let vs = j + 1;
                    let ve = match data[vs..end].iter().position(|c| *c == q) {
                        Some(p) => vs + p,
                        None => break,
                    };
                    let val = &data[vs..ve];
                    if is_a1_token(val) {
                        out.push((vs, ve - vs, format!("{}@{}", tname, aname), true));
                    } else if is_numeric_token(val) {
                        out.push((vs, ve - vs, format!("{}@{}", tname, aname), false));
                    }
                    j = ve + 1;
                }
            }
            i = end + 1;
        } else {
            let end = data[i..].iter().position(|c| *c == b'<').map_or(n, |p| i + p);
            let txt = &data[i..end];
            if is_numeric_token(txt) {
                out.push((i, end - i, format!("{}#text", last_tag), false));
            } else if is_a1_token(txt) {
                out.push((i, end - i, format!("{}#text", last_tag), true));
            }
            i = end;
        }
    }
    out
}

pub fn xml_faults(part: &str, data: &[u8], caps: &Caps, ch: &mut Chooser) -> Vec<StoredFault> {
    let mut v = Vec::new();
    let toks = xml_tokens(data);
    let mut seen: std::collections::HashMap<String, usize> = std::collections::HashMap::new();
    for (off, len, key, a1) in toks {
        let c = seen.entry(key.clone()).or_insert(0);
        if *c >= caps.tokens_per_key {
            continue;
        }
        *c += 1;
        let orig = String::from_utf8_lossy(&data[off..off + len]).into_owned();
        let pool: &[&str] = if a1 { &A1_EXTREMES } else { &NUM_EXTREMES };
        let mut vals: Vec<&str> = Vec::new();
        if caps.token_values >= pool.len() {
            vals.extend(pool.iter());
        } else {
            // a rotating subset, so that over the keys of a part every value is used
            let start = (hbytes(key.as_bytes()) % pool.len() as u64) as usize;
            for k in 0..caps.token_values {
                vals.push(pool[(start + k * 3) % pool.len()]);
            }
            vals.sort();
            vals.dedup();
        }
        for val in vals {
            if val == orig {
                continue;
            }
            let pack = if ch.chance(1, 2) { Pack::Deflated } else { Pack::Stored };
            let label = if a1 { "xml:a1-extreme" } else { "xml:numeric-extreme" };
            v.push(StoredFault {
                layer: Layer::ZipPart { part: part.to_string(), pack },
                edit: None,
                why: format!("{} {} {} {:?} -> {:?}", label, part, key, orig, val),
            });
            // replace = delete + insert, expressed as two edits would need two faults; use Set when
            // lengths agree, otherwise Delete+Insert folded into a single Insert after Delete
            let f = v.last_mut().unwrap();
            f.edit = Some(Edit::Insert { off, bytes: val.as_bytes().to_vec() });
            // the deletion of the original token is a second fault on the same part, applied first
            v.push(StoredFault {
                layer: Layer::ZipPart { part: part.to_string(), pack },
                edit: Some(Edit::Delete { off, len }),
                why: "+".into(),
            });
        }
    }
    v
}

const STR_ATTRS: [&str; 22] = [
    "Target", "Id", "r:id", "name", "displayName", "ref", "t", "s", "si", "numFmtId", "formatCode", "state", "Type", "date1904", "headerRowCount", "totalsRowCount",
    "table:name", "table:formula", "office:value-type", "table:style-name", "manifest:full-path", "text:c",
];

/// String-valued attributes that steer lookups (relationship targets and ids, sheet and table
/// names, cell types, style references): empty, path-like, very long, non-UTF-8, entity-laden.
pub fn xml_string_attr_faults(part: &str, data: &[u8], caps: &Caps, ch: &mut Chooser) -> Vec<StoredFault> {
    let mut v = Vec::new();
    let mut seen: std::collections::HashMap<String, usize> = std::collections::HashMap::new();
    let n = data.len();
    let mut i = 0;
    while i < n {
        if data[i] != b'<' {
            i += 1;
            continue;
        }
        let end = match data[i..].iter().position(|c| *c == b'>') {
            Some(p) => i + p,
            None => break,
        };
        let tag = &data[i + 1..end];
        let name_end = tag.iter().position(|c| c.is_ascii_whitespace() || *c == b'/').unwrap_or(tag.len());
        let tname = String::from_utf8_lossy(&tag[..name_end]).into_owned();
        let mut j = i + 1 + name_end;
        while j < end {
            while j < end && (data[j].is_ascii_whitespace() || data[j] == b'/') {
                j += 1;
            }
            let ns = j;
            while j < end && data[j] != b'=' && !data[j].is_ascii_whitespace() {
                j += 1;
            }
            let aname = String::from_utf8_lossy(&data[ns..j]).into_owned();
            while j < end && data[j] != b'"' && data[j] != b'\'' {
                j += 1;
            }
            if j >= end {
                break;
            }
            let q = data[j];
            let vs = j + 1;
            let ve = match data[vs..end].iter().position(|c| *c == q) {
                Some(p) => vs + p,
                None => break,
            };
            if STR_ATTRS.contains(&aname.as_str()) {
                let key = format!("{}@{}", tname, aname);
                let c = seen.entry(key.clone()).or_insert(0);
                if *c < caps.tokens_per_key {
                    *c += 1;
                    let orig = String::from_utf8_lossy(&data[vs..ve]).into_owned();
                    let long = "A".repeat(6000);
                    let pool: Vec<Vec<u8>> = vec![
                        b"".to_vec(),
                        b"x".to_vec(),
                        b"/".to_vec(),
                        b"../".to_vec(),
                        b"../../../../x".to_vec(),
                        b"xl/".to_vec(),
                        long.into_bytes(),
                        vec![0xFF, 0xFE, 0x41],
                        b"&amp;#0;&lt;".to_vec(),
                        b"&bogus;".to_vec(),
                        b"18446744073709551616".to_vec(),
                        b"-1".to_vec(),
                        "[".repeat(300).into_bytes(),
                        "\\".repeat(301).into_bytes(),
                    ];
                    let take = if caps.token_values >= 12 { pool.len() } else { 6 };
                    let start = (hbytes(key.as_bytes()) % pool.len() as u64) as usize;
                    for k in 0..take {
                        let val = &pool[(start + k * 5) % pool.len()];
                        if val.as_slice() == orig.as_bytes() {
                            continue;
                        }
                        let pack = if ch.chance(1, 2) { Pack::Deflated } else { Pack::Stored };
                        v.push(StoredFault {
                            layer: Layer::ZipPart { part: part.to_string(), pack },
                            edit: Some(Edit::Insert { off: vs, bytes: val.clone() }),
                            why: format!("xml:string-attr {} {} {:?} -> {:?}", part, key, crate::wb::clip(&orig, 40), crate::wb::clip(&String::from_utf8_lossy(val), 24)),
                        });
                        v.push(StoredFault { layer: Layer::ZipPart { part: part.to_string(), pack }, edit: Some(Edit::Delete { off: vs, len: ve - vs }), why: "+".into() });
                    }
                }
            }
            j = ve + 1;
        }
        i = end + 1;
    }
    v
}

const INJECT: [(&str, &[&str]); 12] = [
    ("table:table-cell", &["table:number-columns-repeated=\"4294967295\"", "table:number-columns-repeated=\"100000000\"", "table:number-columns-repeated=\"-1\"", "table:number-columns-repeated=\"18446744073709551615\"", "table:number-columns-repeated=\"2147483648\"", "office:value-type=\"string\"", "office:value=\"1e999\"", "office:boolean-value=\"maybe\""]),
    ("table:covered-table-cell", &["table:number-columns-repeated=\"100000000\""]),
    ("table:table-row", &["table:number-rows-repeated=\"4294967295\"", "table:number-rows-repeated=\"50000000\"", "table:number-rows-repeated=\"x\"", "table:number-rows-repeated=\"18446744073709551615\""]),
    ("text:s", &["text:c=\"4294967295\"", "text:c=\"200000000\"", "text:c=\"18446744073709551615\"", "text:c=\"9223372036854775807\"", "text:c=\"2147483648\"", "text:c=\"-1\""]),
    ("table:table", &["table:name=\"\"", "table:style-name=\"nope\""]),
    ("c", &["t=\"s\"", "t=\"bogus\"", "s=\"4294967295\"", "r=\"XFD1048576\"", "r=\"A4294967295\"", "t=\"e\"", "t=\"b\"", "t=\"d\""]),
    ("row", &["r=\"4294967295\"", "r=\"0\"", "r=\"1048577\""]),
    ("f", &["t=\"shared\" si=\"4294967295\" ref=\"A1:XFD1048576\"", "t=\"shared\" si=\"0\"", "t=\"shared\" ref=\"B2:A1\" si=\"1\"", "t=\"shared\""]),
    ("sheet", &["state=\"bogus\"", "r:id=\"rId999\""]),
    ("table", &["headerRowCount=\"4294967295\"", "totalsRowCount=\"7\"", "insertRow=\"1\"", "ref=\"B2:A1\"", "ref=\"A1:XFD1048576\""]),
    ("mergeCell", &["ref=\"A1:XFD1048576\"", "ref=\"B2:A1\""]),
    ("dimension", &["ref=\"A1:XFD1048576\"", "ref=\"B2:A1\""]),
];

/// Attributes the fixtures do not carry (repeat counts on non-empty cells, shared-formula
/// attributes, types, references): injected as the *first* attribute of an element, so that a
/// field no fixture hosts is still driven to its extremes.
pub fn xml_attr_inject(part: &str, data: &[u8], caps: &Caps, ch: &mut Chooser) -> Vec<StoredFault> {
    let mut v = Vec::new();
    let mut seen: std::collections::HashMap<&str, usize> = std::collections::HashMap::new();
    let n = data.len();
    let mut i = 0;
    while i + 1 < n {
        if data[i] != b'<' || data[i + 1] == b'/' || data[i + 1] == b'?' || data[i + 1] == b'!' {
            i += 1;
            continue;
        }
        let mut j = i + 1;
        while j < n && !data[j].is_ascii_whitespace() && data[j] != b'>' && data[j] != b'/' {
            j += 1;
        }
        let name = &data[i + 1..j];
        // local name match for the OOXML elements, qualified for ODF
        let local = match name.iter().rposition(|c| *c == b':') {
            Some(p) => &name[p + 1..],
            None => name,
        };
        for (el, attrs) in INJECT.iter() {
            let m = if el.contains(':') { name == el.as_bytes() } else { local == el.as_bytes() };
            if !m {
                continue;
            }
            let c = seen.entry(el).or_insert(0);
            // spread over the document: the first occurrences and a few later ones
            *c += 1;
            let pick = *c <= caps.tokens_per_key + 1 || (*c % 17 == 0 && *c / 17 <= caps.tokens_per_key);
            if !pick {
                continue;
            }
            for a in attrs.iter() {
                let pack = if ch.chance(1, 2) { Pack::Deflated } else { Pack::Stored };
                let mut bytes = vec![b' '];
                bytes.extend_from_slice(a.as_bytes());
                v.push(part_fault(part, pack, Edit::Insert { off: j, bytes }, format!("xml:attr-inject {} <{}> #{} gets {}", part, el, c, a)));
            }
        }
        i = j;
    }
    v
}

/// Closing tags whose removal leaves the parser looking for them until end of input.
pub fn xml_tag_faults(part: &str, data: &[u8], caps: &Caps) -> Vec<StoredFault> {
    let mut v = Vec::new();
    let mut seen: Vec<Vec<u8>> = Vec::new();
    let mut i = 0;
    let n = data.len();
    let mut closers: Vec<(usize, usize)> = Vec::new();
    while i + 1 < n {
        if data[i] == b'<' && data[i + 1] == b'/' {
            if let Some(p) = data[i..].iter().position(|c| *c == b'>') {
                closers.push((i, p + 1));
                i += p;
            }
        }
        i += 1;
    }
    // last occurrence of each distinct closing tag
    for (off, len) in closers.iter().rev() {
        let t = data[*off..off + len].to_vec();
        if seen.contains(&t) {
            continue;
        }
        seen.push(t.clone());
        if seen.len() > caps.tokens_per_key * 10 + 6 {
            break;
        }
        let name = String::from_utf8_lossy(&t).into_owned();
        v.push(part_fault(part, Pack::Deflated, Edit::Delete { off: *off, len: *len }, format!("xml:tag-delete {} last {}", part, name)));
        // and everything from that closing tag on (truncated part that ends inside an element)
        v.push(part_fault(part, Pack::Stored, Edit::Trunc { len: *off }, format!("part:truncate {} just before its last {}", part, name)));
    }
    // first occurrence too (an element that never closes while its siblings follow)
    seen.clear();
    for (off, len) in closers.iter() {
        let t = data[*off..off + len].to_vec();
        if seen.contains(&t) {
            continue;
        }
        seen.push(t.clone());
        if seen.len() > caps.tokens_per_key * 4 + 4 {
            break;
        }
        let name = String::from_utf8_lossy(&t).into_owned();
        v.push(part_fault(part, Pack::Deflated, Edit::Delete { off: *off, len: *len }, format!("xml:tag-delete {} first {}", part, name)));
    }
    v
}

pub fn part_truncations(part: &str, data: &[u8], caps: &Caps, ch: &mut Chooser) -> Vec<StoredFault> {
    let n = data.len();
    let mut pts: Vec<usize> = vec![1, 2, 3, 5, 8, 16, 40, n.saturating_sub(1), n.saturating_sub(2), n.saturating_sub(8), n / 2];
    while pts.len() < caps.part_truncs && n > 0 {
        pts.push(ch.below(n as u64) as usize);
    }
    pts.retain(|p| *p < n);
    pts.sort();
    pts.dedup();
    pts.truncate(caps.part_truncs.max(11));
    pts.into_iter()
        .map(|p| part_fault(part, if p % 2 == 0 { Pack::Deflated } else { Pack::Stored }, Edit::Trunc { len: p }, format!("part:truncate {} at {} of {}", part, p, n)))
        .collect()
}

pub fn part_flips(part: &str, data: &[u8], count: usize, ch: &mut Chooser) -> Vec<StoredFault> {
    let n = data.len();
    let mut v = Vec::new();
    if n == 0 {
        return v;
    }
    for _ in 0..count {
        let off = ch.below(n as u64) as usize;
        let bit = ch.below(8) as u8;
        v.push(part_fault(part, Pack::Deflated, Edit::Set { off, bytes: vec![data[off] ^ (1 << bit)] }, format!("part:bitflip {} offset {} bit {}", part, off, bit)));
    }
    v
}

// ---- record streams ---------------------------------------------------------------------

#[derive(Clone, Copy, Debug)]
pub struct Rec {
    pub off: usize,
    pub typ: u32,
    pub hdr: usize,
    pub len: usize,
    /// xlsb: byte offsets/lengths of the varints
    pub typ_len: usize,
    pub len_len: usize,
}

pub fn biff_records(s: &[u8]) -> Vec<Rec> {
    let mut v = Vec::new();
    let mut i = 0;
    while i + 4 <= s.len() {
        let typ = u16::from_le_bytes([s[i], s[i + 1]]) as u32;
        let len = u16::from_le_bytes([s[i + 2], s[i + 3]]) as usize;
        v.push(Rec { off: i, typ, hdr: 4, len, typ_len: 2, len_len: 2 });
        i += 4 + len;
    }
    v
}

pub fn xlsb_records(s: &[u8]) -> Vec<Rec> {
    let mut v = Vec::new();
    let mut i = 0;
    while i < s.len() {
        let off = i;
        let b = s[i];
        i += 1;
        let mut typ = (b & 0x7F) as u32;
        let mut typ_len = 1;
        if b & 0x80 != 0 {
            if i >= s.len() {
                break;
            }
            typ += ((s[i] & 0x7F) as u32) << 7;
            i += 1;
            typ_len = 2;
        }
        let mut len = 0usize;
        let mut len_len = 0;
        for k in 0..4 {
            if i >= s.len() {
                return v;
            }
            let b = s[i];
            i += 1;
            len_len += 1;
            len += ((b & 0x7F) as usize) << (7 * k);
            if b & 0x80 == 0 {
                break;
            }
        }
        v.push(Rec { off, typ, hdr: typ_len + len_len, len, typ_len, len_len });
        i += len;
    }
    v
}

fn varint(mut n: usize, max_bytes: usize) -> Vec<u8> {
    let mut v = Vec::new();
    for k in 0..max_bytes {
        let b = (n & 0x7F) as u8;
        n >>= 7;
        if n == 0 || k + 1 == max_bytes {
            v.push(b);
            break;
        }
        v.push(b | 0x80);
    }
    v
}

/// Record-level tamper for a BIFF (`biff = true`) or xlsb record stream.  `mk` wraps an edit of
/// the stream into a stored fault of the right layer.
pub fn record_faults(label: &str, s: &[u8], biff: bool, caps: &Caps, ch: &mut Chooser, mk: &dyn Fn(Edit, String) -> StoredFault) -> Vec<StoredFault> {
    let recs = if biff { biff_records(s) } else { xlsb_records(s) };
    let mut v = Vec::new();
    let mut seen_hdr: std::collections::HashMap<u32, usize> = std::collections::HashMap::new();
    let types: Vec<u32> = {
        let mut t: Vec<u32> = recs.iter().map(|r| r.typ).collect();
        t.sort();
        t.dedup();
        t
    };
    let pfx = if biff { "biff" } else { "xlsb" };
    for (ri, r) in recs.iter().enumerate() {
        let c = seen_hdr.entry(r.typ).or_insert(0);
        *c += 1;
        if *c > caps.rec_headers_per_type {
            continue;
        }
        let lo = r.off + r.typ_len;
        let tname = format!("{} record #{} type {:#06x} len {}", label, ri, r.typ, r.len);
        // length field
        let mut lens: Vec<usize> = vec![0, r.len.wrapping_sub(1), r.len + 1, r.len + 4, r.len / 2, 1, 3];
        if biff {
            lens.extend([0xFFFF, 0x2020, 0x2021]);
        } else {
            lens.extend([0x7F, 0x3FFF, 0x0FFF_FFFF, 0x001F_FFFF]);
        }
        lens.sort();
        lens.dedup();
        for nl in lens {
            if nl == r.len || nl > 0x0FFF_FFFF {
                continue;
            }
            if biff {
                if nl > 0xFFFF {
                    continue;
                }
                v.push(mk(Edit::Set { off: lo, bytes: (nl as u16).to_le_bytes().to_vec() }, format!("{}:len {} -> {}", pfx, tname, nl)));
            } else {
                let enc = varint(nl, 4);
                if enc.len() == r.len_len {
                    v.push(mk(Edit::Set { off: lo, bytes: enc }, format!("{}:len {} -> {}", pfx, tname, nl)));
                } else {
                    // different varint width: delete + insert as two faults on the same stream
                    v.push(mk(Edit::Insert { off: lo, bytes: enc }, format!("{}:len {} -> {} (re-encoded)", pfx, tname, nl)));
                    v.push(mk(Edit::Delete { off: lo, len: r.len_len }, "+".into()));
                }
            }
        }
        // type swap with other record types of the same stream and a few fixed ones
        let mut swaps: Vec<u32> = Vec::new();
        for _ in 0..3 {
            swaps.push(*ch.pick(&types));
        }
        if biff {
            swaps.extend([0x00FC, 0x0006, 0x00BD, 0x0085, 0x003C, 0x000A, 0x0809, 0x0018, 0x0017, 0x00E5, 0x0204, 0x0207, 0x041E, 0x00E0, 0x002F, 0x0200, 0x00FD]);
        } else {
            swaps.extend([0x0000, 0x0002, 0x0007, 0x0008, 0x0009, 0x000B, 0x0013, 0x009C, 0x0027, 0x016A, 0x0094, 0x0091, 0x0092, 0x009F, 0x002C]);
        }
        swaps.sort();
        swaps.dedup();
        for t in swaps {
            if t == r.typ {
                continue;
            }
            if biff {
                v.push(mk(Edit::Set { off: r.off, bytes: (t as u16).to_le_bytes().to_vec() }, format!("{}:type {} -> {:#06x}", pfx, tname, t)));
            } else {
                let enc: Vec<u8> = if t < 0x80 { vec![t as u8] } else { vec![(t & 0x7F) as u8 | 0x80, (t >> 7) as u8] };
                if enc.len() == r.typ_len {
                    v.push(mk(Edit::Set { off: r.off, bytes: enc }, format!("{}:type {} -> {:#06x}", pfx, tname, t)));
                }
            }
        }
        // drop / duplicate the record; cut the stream inside it
        let whole = r.hdr + r.len;
        if r.off + whole <= s.len() {
            v.push(mk(Edit::Delete { off: r.off, len: whole }, format!("{}:drop {}", pfx, tname)));
            v.push(mk(Edit::Insert { off: r.off, bytes: s[r.off..r.off + whole].to_vec() }, format!("{}:dup {}", pfx, tname)));
            if biff {
                // a CONTINUE record where none belongs
                v.push(mk(Edit::Insert { off: r.off + whole, bytes: vec![0x3C, 0x00, 0x04, 0x00, 1, 2, 3, 4] }, format!("{}:continue-inserted after {}", pfx, tname)));
            }
        }
        for cut in [r.off + 1, r.off + r.hdr, r.off + r.hdr + r.len / 2, r.off + whole.saturating_sub(1)] {
            if cut < s.len() {
                v.push(mk(Edit::Trunc { len: cut }, format!("{}:trunc stream cut at {} inside {}", pfx, cut, tname)));
            }
        }
        // field level: aligned 2-byte (biff) / 4-byte (xlsb) fields of the first bytes
        if *c <= caps.rec_fields_per_type {
            let body = r.off + r.hdr;
            let width = if biff { 2 } else { 4 };
            let nf = (r.len.min(if biff { 24 } else { 32 })) / width;
            for f in 0..nf {
                let fo = body + f * width;
                if fo + width > s.len() {
                    break;
                }
                if biff {
                    let orig = u16::from_le_bytes([s[fo], s[fo + 1]]);
                    for val in [0u16, 0xFFFF, 0x7FFF, 0x8000, orig.wrapping_add(1), 0x0100, 1, 2, 3, orig.wrapping_sub(1), orig.wrapping_sub(2), orig / 2] {
                        if val != orig {
                            v.push(mk(set_u16(fo, val), format!("{}:field {} u16 at +{} {:#x} -> {:#x}", pfx, tname, f * 2, orig, val)));
                        }
                    }
                } else {
                    let orig = u32::from_le_bytes([s[fo], s[fo + 1], s[fo + 2], s[fo + 3]]);
                    for val in [0u32, 0xFFFF_FFFF, 0x7FFF_FFFF, 0x8000_0000, orig.wrapping_add(1), 0x0010_0000, 0x0000_FFFF, 1, 2, 3, orig.wrapping_sub(1), orig.wrapping_sub(2), orig / 2] {
                        if val != orig {
                            v.push(mk(set_u32(fo, val), format!("{}:field {} u32 at +{} {:#x} -> {:#x}", pfx, tname, f * 4, orig, val)));
                        }
                    }
                }
            }
            // unaligned single bytes inside the first bytes (flag / count bytes)
            for f in 0..r.len.min(16) {
                let fo = body + f;
                if fo < s.len() {
                    v.push(mk(Edit::Set { off: fo, bytes: vec![0xFF] }, format!("{}:field {} byte at +{} -> 0xFF", pfx, tname, f)));
                }
            }
        }
    }
    v
}

/// Token streams with their own length inside a record (formulas, defined names): cut after
/// 1..14 bytes *keeping the first token*, so that every operand read of that token meets a
/// stream that is too short (the record stays well-formed around it).
pub fn rgce_truncations(label: &str, s: &[u8], biff: bool, mk: &dyn Fn(Edit, String) -> StoredFault) -> Vec<StoredFault> {
    let mut v = Vec::new();
    let recs = if biff { biff_records(s) } else { xlsb_records(s) };
    let mut seen: std::collections::HashMap<u32, usize> = std::collections::HashMap::new();
    for r in recs {
        if r.off + r.hdr + r.len > s.len() {
            break;
        }
        let body = r.off + r.hdr;
        // (offset of the length field, its width, is the stream at the end of the record?)
        let spec: Option<(usize, usize, bool)> = match (biff, r.typ) {
            (true, 0x0006) if r.len >= 22 => Some((20, 2, false)),
            (true, 0x0018) if r.len >= 15 => Some((4, 2, true)),
            (false, 0x0009) if r.len >= 22 => Some((18, 4, false)),
            (false, 0x000A) | (false, 0x000B) if r.len >= 15 => Some((11, 4, false)),
            _ => None,
        };
        let (lo, w, at_end) = match spec {
            Some(x) => x,
            None => continue,
        };
        let c = seen.entry(r.typ).or_insert(0);
        *c += 1;
        if *c > 3 {
            continue;
        }
        let cce = if w == 2 { u16::from_le_bytes([s[body + lo], s[body + lo + 1]]) as usize } else { u32::from_le_bytes([s[body + lo], s[body + lo + 1], s[body + lo + 2], s[body + lo + 3]]) as usize };
        if cce == 0 || cce > r.len {
            continue;
        }
        for k in 1..cce.min(15) {
            let newlen: Vec<u8> = if w == 2 { (k as u16).to_le_bytes().to_vec() } else { (k as u32).to_le_bytes().to_vec() };
            let why = format!("{}:rgce-trunc {} record at {} type {:#06x}: token stream of {} bytes cut to {}", if biff { "biff" } else { "xlsb" }, label, r.off, r.typ, cce, k);
            if at_end && biff {
                // the stream is the tail of the record: drop the bytes after the first k and shorten the record
                let start = body + r.len - cce;
                let cut = cce - k;
                v.push(mk(Edit::Set { off: body + lo, bytes: newlen }, why));
                v.push(mk(Edit::Set { off: r.off + 2, bytes: ((r.len - cut) as u16).to_le_bytes().to_vec() }, "+".into()));
                v.push(mk(Edit::Delete { off: start + k, len: cut }, "+".into()));
            } else {
                // the stream is followed by other fields: only its declared length shrinks
                v.push(mk(Edit::Set { off: body + lo, bytes: newlen }, why));
            }
        }
    }
    v
}

/// Every cell record type at every short length: the first cell record of a sheet is replaced by a
/// record of type T and length L (its body: the original bytes, cut or zero-padded), for all the
/// cell and formula record types and L in 0..=24.  A table of minimum lengths that is one too
/// small for one type only shows at exactly that type and length.
pub fn type_length_sweep(label: &str, s: &[u8], biff: bool, mk: &dyn Fn(Edit, String) -> StoredFault) -> Vec<Vec<StoredFault>> {
    let mut out = Vec::new();
    let recs = if biff { biff_records(s) } else { xlsb_records(s) };
    let types: &[u32] = if biff { &[0x0006, 0x00BD, 0x00BE, 0x00FD, 0x0201, 0x0203, 0x0204, 0x0205, 0x0207, 0x027E, 0x00E5, 0x0200] } else { &[0x00, 0x01, 0x02, 0x03, 0x04, 0x05, 0x06, 0x07, 0x08, 0x09, 0x0A, 0x0B] };
    let host = recs.iter().find(|r| r.off + r.hdr + r.len <= s.len() && if biff { matches!(r.typ, 0x0203 | 0x027E | 0x00FD | 0x0204 | 0x0205 | 0x00BD | 0x0006) } else { (0x02..=0x0B).contains(&r.typ) });
    let r = match host {
        Some(r) => r,
        None => return out,
    };
    let body = &s[r.off + r.hdr..r.off + r.hdr + r.len];
    for t in types {
        for len in 0..=24usize {
            let mut rec: Vec<u8> = if biff {
                let mut h = (*t as u16).to_le_bytes().to_vec();
                h.extend_from_slice(&(len as u16).to_le_bytes());
                h
            } else {
                vec![*t as u8, len as u8]
            };
            rec.extend((0..len).map(|i| body.get(i).copied().unwrap_or(0)));
            out.push(vec![
                mk(Edit::Delete { off: r.off, len: r.hdr + r.len }, format!("{}:type-len (removal of the first cell record of {})", if biff { "biff" } else { "xlsb" }, label)),
                mk(Edit::Insert { off: r.off, bytes: rec }, format!("{}:type-len {} first cell record at {} replaced by a record of type {:#06x} and length {}", if biff { "biff" } else { "xlsb" }, label, r.off, t, len)),
            ]);
        }
    }
    out
}

/// Complexity bombs inside record streams (all "light": short call list, budgets proportional
/// to the generated bytes).  Each returns groups of edits in application order.
///  * token floods: a formula whose token stream is one operand followed by thousands of
///    copies of a unary / attribute token (each of which edits the text built so far);
///  * unaligned operand extremes: 0xFFFF written at every byte offset of the first 40 bytes of
///    a formula's token stream (tokens are not aligned; rows and columns sit at odd offsets);
///  * record floods: the first record of each type followed by thousands of copies of itself;
///  * a string of `[` as number format (bracket counter), an SST followed by a flood of
///    empty CONTINUE records, sheets that all alias one substream.
pub fn record_bombs(label: &str, s: &[u8], biff: bool, thorough: bool, mk: &dyn Fn(Edit, String) -> StoredFault) -> Vec<Vec<StoredFault>> {
    let mut out: Vec<Vec<StoredFault>> = Vec::new();
    let recs = if biff { biff_records(s) } else { xlsb_records(s) };
    let pfx = if biff { "biff" } else { "xlsb" };
    let whole = |r: &Rec| r.off + r.hdr + r.len <= s.len();
    let header = |typ: u32, len: usize| -> Vec<u8> {
        if biff {
            let mut h = (typ as u16).to_le_bytes().to_vec();
            h.extend_from_slice(&(len as u16).to_le_bytes());
            h
        } else {
            let mut h: Vec<u8> = if typ < 0x80 { vec![typ as u8] } else { vec![(typ & 0x7F) as u8 | 0x80, (typ >> 7) as u8] };
            h.extend_from_slice(&varint(len, 4));
            h
        }
    };
    // ---- formula records: token floods and unaligned operand extremes ----
    let formula_rec = recs.iter().find(|r| whole(r) && ((biff && r.typ == 0x0006 && r.len >= 22) || (!biff && r.typ == 0x0009 && r.len >= 22)));
    if let Some(r) = formula_rec {
        let body = &s[r.off + r.hdr..r.off + r.hdr + r.len];
        let fixed = if biff { 20 } else { 18 };
        let total_max = if biff { 60_000usize } else if thorough { 3_000_000 } else { 1_500_000 };
        let operand: &[u8] = &[0x1E, 0x01, 0x00]; // PtgInt 1
        let pats: [(&str, &[u8]); 6] = [("PtgUplus", &[0x12]), ("PtgUminus", &[0x13]), ("PtgParen", &[0x15]), ("PtgPercent", &[0x14]), ("PtgAttrSpace x255", &[0x19, 0x40, 0x00, 0xFF]), ("PtgAttrSum", &[0x19, 0x10, 0x00, 0x00])];
        for (name, pat) in pats.iter() {
            let n = (total_max - operand.len()) / pat.len();
            let cce = operand.len() + n * pat.len();
            let mut head = body[..fixed].to_vec();
            if biff {
                head.extend_from_slice(&(cce as u16).to_le_bytes());
            } else {
                head.extend_from_slice(&(cce as u32).to_le_bytes());
            }
            head.extend_from_slice(operand);
            let tail: Vec<u8> = if biff { vec![] } else { 0u32.to_le_bytes().to_vec() };
            let data_len = head.len() + n * pat.len() + tail.len();
            let mut new_head = header(r.typ, data_len);
            new_head.extend_from_slice(&head);
            let at = r.off;
            out.push(vec![
                mk(Edit::Delete { off: at, len: r.hdr + r.len }, format!("{}:token-flood (removal of the original formula record of {})", pfx, label)),
                mk(Edit::Insert { off: at, bytes: new_head.clone() }, format!("{}:token-flood (record head)", pfx)),
                mk(Edit::Repeat { off: at + new_head.len(), pattern: pat.to_vec(), count: n as u32, start: 0, step: 0, le: vec![] }, format!("{}:token-flood {} formula at {}: one operand followed by {} x {}", pfx, label, r.off, n, name)),
                mk(Edit::Insert { off: at + new_head.len() + n * pat.len(), bytes: tail }, format!("{}:token-flood (record tail)", pfx)),
            ]);
        }
        // every token kind with all-ones / all-zero operands: [PtgInt 1, PtgInt 2, ptg, 16 x fill]
        for ptg in 0x01u8..=0x7D {
            for fill in [0xFFu8, 0x00] {
                let mut rg = vec![0x1E, 0x01, 0x00, 0x1E, 0x02, 0x00, ptg];
                rg.extend(std::iter::repeat(fill).take(16));
                let mut d = body[..fixed].to_vec();
                if biff {
                    d.extend_from_slice(&(rg.len() as u16).to_le_bytes());
                } else {
                    d.extend_from_slice(&(rg.len() as u32).to_le_bytes());
                }
                d.extend_from_slice(&rg);
                if !biff {
                    d.extend_from_slice(&0u32.to_le_bytes());
                }
                let mut rec = header(r.typ, d.len());
                rec.extend_from_slice(&d);
                out.push(vec![
                    mk(Edit::Delete { off: r.off, len: r.hdr + r.len }, format!("{}:token-extreme (removal of the original formula record of {})", pfx, label)),
                    mk(Edit::Insert { off: r.off, bytes: rec }, format!("{}:token-extreme {} formula at {}: token {:#04x} with operands of 16 x {:#04x}", pfx, label, r.off, ptg, fill)),
                ]);
            }
        }
        // nested sub-expressions (PtgMemFunc carries the length of a nested token stream): the depth
        // of the nesting is the depth of a recursive parser
        for depth in [63usize, 64, 65, 2048, 21845] {
            let total = depth * 3;
            let mut d = body[..fixed].to_vec();
            if biff {
                d.extend_from_slice(&(total as u16).to_le_bytes());
            } else {
                d.extend_from_slice(&(total as u32).to_le_bytes());
            }
            for k in 0..depth {
                let rest = total - 3 * (k + 1);
                d.push(0x29);
                d.extend_from_slice(&(rest as u16).to_le_bytes());
            }
            if !biff {
                d.extend_from_slice(&0u32.to_le_bytes());
            }
            if biff && d.len() > 8000 {
                continue;
            }
            let mut rec = header(r.typ, d.len());
            rec.extend_from_slice(&d);
            out.push(vec![
                mk(Edit::Delete { off: r.off, len: r.hdr + r.len }, format!("{}:formula-nesting (removal of the original formula record of {})", pfx, label)),
                mk(Edit::Insert { off: r.off, bytes: rec }, format!("{}:formula-nesting {} formula at {}: {} nested PtgMemFunc tokens", pfx, label, r.off, depth)),
            ]);
        }
        // unaligned 0xFFFF over the token stream
        let rg = r.off + r.hdr + fixed + if biff { 2 } else { 4 };
        let end = (r.off + r.hdr + r.len).min(rg + 40);
        for o in rg..end.saturating_sub(1) {
            out.push(vec![mk(Edit::Set { off: o, bytes: vec![0xFF, 0xFF] }, format!("{}:operand {} formula at {}: bytes +{}..+{} of the token stream -> 0xFFFF", pfx, label, r.off, o - rg, o - rg + 2))]);
        }
    }
    // ---- record floods ----
    let mut seen: Vec<u32> = Vec::new();
    let per = if thorough { 400_000usize } else { 150_000 };
    for r in recs.iter() {
        if !whole(r) || seen.contains(&r.typ) {
            continue;
        }
        seen.push(r.typ);
        if seen.len() > if thorough { 48 } else { 10 } {
            break;
        }
        let size = r.hdr + r.len;
        let n = (per / size.max(1)).clamp(200, 40_000);
        let mut g = Vec::new();
        if biff {
            // BoundSheet records hold absolute stream positions: keep the sheets where the flood
            // pushes them, so that the workbook still opens and its sheets are read against the
            // flooded tables (these edits come first: they use the offsets before the insertion)
            let first_sheet = recs.iter().filter(|x| x.typ == 0x0809).nth(1).map(|x| x.off).unwrap_or(usize::MAX);
            if r.off < first_sheet {
                for b in recs.iter().filter(|x| whole(x) && x.typ == 0x0085 && x.len >= 4) {
                    let at = b.off + b.hdr;
                    let pos = u32::from_le_bytes([s[at], s[at + 1], s[at + 2], s[at + 3]]) as usize;
                    if pos > r.off {
                        g.push(mk(Edit::Set { off: at, bytes: ((pos + n * size) as u32).to_le_bytes().to_vec() }, format!("{}:record-flood (sheet position moved by the length of the flood) base={} per={}", pfx, pos, size)));
                    }
                }
            }
        }
        g.push(mk(
            Edit::Repeat { off: r.off + size, pattern: s[r.off..r.off + size].to_vec(), count: n as u32, start: 0, step: 0, le: vec![] },
            format!("{}:record-flood {} record at {} type {:#06x} followed by {} copies of itself", pfx, label, r.off, r.typ, n),
        ));
        out.push(g);
    }
    if biff {
        // number format made of opening brackets
        if let Some(r) = recs.iter().find(|r| whole(r) && r.typ == 0x041E && r.len >= 5) {
            for n in [300usize, 5000] {
                let mut d = s[r.off + 4..r.off + 6].to_vec();
                d.extend_from_slice(&(n as u16).to_le_bytes());
                d.push(0);
                d.extend(std::iter::repeat(b'[').take(n));
                let mut rec = header(0x041E, d.len());
                rec.extend_from_slice(&d);
                out.push(vec![
                    mk(Edit::Delete { off: r.off, len: r.hdr + r.len }, "biff:format-bomb (removal of the original FORMAT record)".into()),
                    mk(Edit::Insert { off: r.off, bytes: rec }, format!("biff:format-bomb {} FORMAT record at {}: format string of {} opening brackets", label, r.off, n)),
                ]);
            }
        }
        // SST whose only string claims 2 GiB of ExtRst, followed by a flood of empty CONTINUE records
        if let Some(r) = recs.iter().find(|r| whole(r) && r.typ == 0x00FC) {
            let mut d = vec![1u8, 0, 0, 0, 1, 0, 0, 0];
            d.extend_from_slice(&[0, 0, 0x04]); // cch 0, fExtSt
            d.extend_from_slice(&0x7FFF_FFFFu32.to_le_bytes());
            let mut rec = header(0x00FC, d.len());
            rec.extend_from_slice(&d);
            let n = if thorough { 800_000u32 } else { 400_000 };
            out.push(vec![
                mk(Edit::Delete { off: r.off, len: r.hdr + r.len }, "biff:continue-flood (removal of the original SST)".into()),
                mk(Edit::Insert { off: r.off, bytes: rec.clone() }, "biff:continue-flood (SST with one string claiming 2 GiB of ExtRst)".into()),
                mk(Edit::Repeat { off: r.off + rec.len(), pattern: vec![0x3C, 0, 0, 0], count: n, start: 0, step: 0, le: vec![] }, format!("biff:continue-flood {} SST followed by {} empty CONTINUE records", label, n)),
            ]);
        }
        // many sheets that all alias one substream which itself holds many cells
        if let (Some(bs), Some(dim)) = (recs.iter().find(|r| whole(r) && r.typ == 0x0085), recs.iter().find(|r| whole(r) && r.typ == 0x0200)) {
            let n = if thorough { 6000u32 } else { 3000 };
            let mut num = vec![0x03u8, 0x02, 14, 0];
            num.extend_from_slice(&[0u8; 6]);
            num.extend_from_slice(&1.25f64.to_le_bytes());
            let bsz = bs.hdr + bs.len;
            // the BoundSheet copies are inserted first (they shift the substream): lbPlyPos of every
            // BoundSheet must point at the shifted substream, so patch the position field in the pattern
            let sub_bof = recs.iter().filter(|r| r.typ == 0x0809).nth(1).map(|r| r.off);
            if let Some(sub) = sub_bof {
                let shifted = sub + bsz * n as usize;
                let mut pat = s[bs.off..bs.off + bsz].to_vec();
                pat[4..8].copy_from_slice(&(shifted as u32).to_le_bytes());
                let dim_at = dim.off + dim.hdr + dim.len + bsz * n as usize;
                out.push(vec![
                    mk(Edit::Set { off: bs.off + 4, bytes: (shifted as u32).to_le_bytes().to_vec() }, "biff:sheet-alias-flood (first BoundSheet repointed)".into()),
                    mk(Edit::Repeat { off: bs.off + bsz, pattern: pat, count: n, start: 0, step: 0, le: vec![] }, format!("biff:sheet-alias-flood {} {} BoundSheet records naming the same substream", label, n)),
                    mk(Edit::Repeat { off: dim_at, pattern: num, count: n, start: 0, step: 1, le: vec![(4, 2)] }, format!("biff:sheet-alias-flood … which holds {} generated NUMBER records", n)),
                ]);
            }
        }
    } else if let Some(r) = recs.iter().find(|r| whole(r) && r.typ == 0x002C && r.len >= 6) {
        for n in [300usize, 5000] {
            let mut d = s[r.off + r.hdr..r.off + r.hdr + 2].to_vec();
            d.extend_from_slice(&(n as u32).to_le_bytes());
            for _ in 0..n {
                d.extend_from_slice(&[b'[', 0]);
            }
            let mut rec = header(0x002C, d.len());
            rec.extend_from_slice(&d);
            out.push(vec![
                mk(Edit::Delete { off: r.off, len: r.hdr + r.len }, "xlsb:format-bomb (removal of the original BrtFmt)".into()),
                mk(Edit::Insert { off: r.off, bytes: rec }, format!("xlsb:format-bomb {} BrtFmt at {}: format string of {} opening brackets", label, r.off, n)),
            ]);
        }
    }
    out
}

/// A formula whose token stream nests as deeply as its 16-bit lengths allow (PtgMemFunc inside
/// PtgMemFunc …): a parser that recurses per level needs stack in proportion to the input.
pub fn xlsb_formula_nesting(part: &str, s: &[u8]) -> Vec<StoredFault> {
    let mut v = Vec::new();
    for r in xlsb_records(s) {
        // BrtFmlaNum: cell (8 bytes) + value (8) + flags (2) + cce (4) + rgce
        if r.typ != 0x0009 || r.len < 22 || r.off + r.hdr + r.len > s.len() {
            continue;
        }
        let body = &s[r.off + r.hdr..r.off + r.hdr + r.len];
        for depth in [64usize, 2048, 21845] {
            let total = depth * 3;
            let mut data = body[..18].to_vec();
            data.extend_from_slice(&(total as u32).to_le_bytes());
            for k in 0..depth {
                let rest = total - 3 * (k + 1);
                data.push(0x29);
                data.extend_from_slice(&(rest as u16).to_le_bytes());
            }
            data.extend_from_slice(&0u32.to_le_bytes()); // cb of rgcb
            let mut rec = vec![0x09u8];
            rec.extend_from_slice(&varint(data.len(), 4));
            rec.extend_from_slice(&data);
            let layer = Layer::ZipPart { part: part.to_string(), pack: Pack::Deflated };
            v.push(StoredFault { layer: layer.clone(), edit: Some(Edit::Insert { off: r.off, bytes: rec }), why: format!("xlsb:formula-nesting {} formula record at {} replaced by {} nested PtgMemFunc tokens", part, r.off, depth) });
            v.push(StoredFault { layer, edit: Some(Edit::Delete { off: r.off, len: r.hdr + r.len }), why: "+".into() });
        }
        break;
    }
    v
}

// ------------------------------------------------------------------------------------------
// everything for one fixture
// ------------------------------------------------------------------------------------------

fn is_xml_part(n: &str) -> bool {
    n.ends_with(".xml") || n.ends_with(".rels") || n.ends_with(".vml")
}

fn is_record_part(n: &str) -> bool {
    n.ends_with(".bin") && !n.contains("vbaProject") && !n.contains("printerSettings")
}

/// Faults that come in (delete, insert) pairs are emitted as consecutive `why == "+"` entries;
/// group them so that one site = one logical fault.
fn group(faults: Vec<StoredFault>) -> Vec<Vec<StoredFault>> {
    let mut out: Vec<Vec<StoredFault>> = Vec::new();
    for f in faults {
        if f.why == "+" {
            if let Some(last) = out.last_mut() {
                // the deletion must be applied before the insertion at the same offset
                let mut f = f;
                f.why = format!("{} (removal of the original token)", last[0].why.split(' ').next().unwrap_or(""));
                last.insert(0, f);
                continue;
            }
        }
        out.push(vec![f]);
    }
    out
}

#[derive(Clone, Debug)]
pub struct SiteGroup {
    pub inner: Option<String>,
    pub faults: Vec<StoredFault>,
    /// amplified input: run a short list of calls instead of the whole API sweep
    pub light: bool,
    /// amplified input run at a quarter, a half and the full number of generated items, to see
    /// how the CPU time grows (`c06::exec_spec`)
    pub scaling: bool,
}

fn find(h: &[u8], n: &[u8]) -> Option<usize> {
    h.windows(n.len()).position(|w| w == n)
}

/// Amplification: a valid part whose item list is replaced or extended by `n` generated items
/// in ascending, descending or constant order.  Correct code handles them in time and memory
/// proportional to their number; code that is accidentally quadratic in the number of items
/// (insertion into a sorted vector, rescans, `contains` on a list) does not.
pub fn amplify_sites(fx: &Fixture, parts: &mut Parts, n: u32) -> Vec<Vec<StoredFault>> {
    let mut out: Vec<Vec<StoredFault>> = Vec::new();
    let zp = |part: &str, e: Edit, why: String| StoredFault { layer: Layer::ZipPart { part: part.to_string(), pack: Pack::Deflated }, edit: Some(e), why };
    let names: Vec<String> = parts.zip.as_ref().map(|z| z.iter().map(|e| e.name.clone()).collect()).unwrap_or_default();
    match fx.format {
        Format::Xlsx => {
            let sheet_parts: Vec<String> = names.iter().filter(|n| n.starts_with("xl/worksheets/") && n.ends_with(".xml")).cloned().collect();
            let with_rows = sheet_parts.iter().find(|n| parts.part(n).map_or(false, |d| find(&d, b"<sheetData>").is_some() && find(&d, b"</sheetData>").is_some())).cloned();
            if let Some(sheet) = with_rows.as_ref() {
                if let Some(data) = parts.part(sheet) {
                    if let (Some(a), Some(b)) = (find(&data, b"<sheetData>"), find(&data, b"</sheetData>")) {
                        let a = a + b"<sheetData>".len();
                        let row = b"<row r=\"{#}\"><c r=\"A{#}\"><v>{#}</v></c><c r=\"B{#}\" t=\"str\"><v>x</v></c></row>".to_vec();
                        for (what, start, step) in [("descending rows", n as i64, -1i64), ("ascending rows", 1, 1), ("the same row", 7, 0)] {
                            out.push(vec![
                                zp(sheet, Edit::Delete { off: a, len: b - a }, format!("xml:amplify (removal of the original rows of {})", sheet)),
                                zp(sheet, Edit::Repeat { off: a, pattern: row.clone(), count: n, start, step, le: vec![] }, format!("xml:amplify {} sheetData replaced by {} generated rows, {}", sheet, n, what)),
                            ]);
                        }
                        // many shared formulas, each with its own index (one table entry per master cell)
                        out.push(vec![
                            zp(sheet, Edit::Delete { off: a, len: b - a }, format!("xml:amplify (removal of the original rows of {})", sheet)),
                            zp(sheet, Edit::Repeat { off: a, pattern: b"<row r=\"{#}\"><c r=\"A{#}\"><f t=\"shared\" ref=\"A{#}:B{#}\" si=\"{#}\">C1+1</f><v>1</v></c><c r=\"B{#}\"><f t=\"shared\" si=\"{#}\"/><v>2</v></c></row>".to_vec(), count: n, start: 1, step: 1, le: vec![] }, format!("xml:amplify {} sheetData replaced by {} rows, each with a shared formula of its own", sheet, n)),
                        ]);
                        // one row with many cells in descending column order is not expressible with a
                        // decimal counter (columns are letters); many cells without r (implicit columns):
                        let cells = b"<c><v>{#}</v></c>".to_vec();
                        out.push(vec![
                            zp(sheet, Edit::Delete { off: a, len: b - a }, format!("xml:amplify (removal of the original rows of {})", sheet)),
                            zp(sheet, Edit::Insert { off: a, bytes: b"<row r=\"1\"></row>".to_vec() }, "xml:amplify (one row)".into()),
                            zp(sheet, Edit::Repeat { off: a + b"<row r=\"1\">".len(), pattern: cells, count: n.min(16000), start: 1, step: 1, le: vec![] }, format!("xml:amplify {} one row with {} cells at implicit positions", sheet, n.min(16000))),
                        ]);
                        if let Some(m) = find(&data, b"<mergeCells") {
                            if let Some(gt) = data[m..].iter().position(|c| *c == b'>') {
                                out.push(vec![zp(sheet, Edit::Repeat { off: m + gt + 1, pattern: b"<mergeCell ref=\"A{#}:B{#}\"/>".to_vec(), count: n, start: n as i64, step: -1, le: vec![] }, format!("xml:amplify {} {} generated mergeCell elements", sheet, n))]);
                            }
                        }
                    }
                }
            }
            if let Some(data) = parts.part("xl/sharedStrings.xml") {
                if let Some(m) = find(&data, b"<sst") {
                    if let Some(gt) = data[m..].iter().position(|c| *c == b'>') {
                        out.push(vec![zp("xl/sharedStrings.xml", Edit::Repeat { off: m + gt + 1, pattern: b"<si><t>s{#}</t></si>".to_vec(), count: n, start: 0, step: 1, le: vec![] }, format!("xml:amplify xl/sharedStrings.xml {} generated strings", n))]);
                    }
                }
            }
            if let Some(data) = parts.part("xl/workbook.xml") {
                if let Some(m) = find(&data, b"</sheets>") {
                    let at = m + b"</sheets>".len();
                    out.push(vec![zp("xl/workbook.xml", Edit::Insert { off: at, bytes: b"<definedNames></definedNames>".to_vec() }, "xml:amplify (definedNames container)".into()),
                        zp("xl/workbook.xml", Edit::Repeat { off: at + b"<definedNames>".len(), pattern: b"<definedName name=\"n{#}\">Sheet1!$A${#}</definedName>".to_vec(), count: n, start: 1, step: 1, le: vec![] }, format!("xml:amplify xl/workbook.xml {} generated defined names", n))]);
                }
            }
            if let Some(data) = parts.part("xl/_rels/workbook.xml.rels") {
                if let Some(m) = find(&data, b"</Relationships>") {
                    out.push(vec![zp("xl/_rels/workbook.xml.rels", Edit::Repeat { off: m, pattern: b"<Relationship Id=\"rIdX{#}\" Type=\"t\" Target=\"worksheets/none{#}.xml\"/>".to_vec(), count: n, start: 1, step: 1, le: vec![] }, format!("xml:amplify workbook.xml.rels {} generated relationships", n))]);
                }
            }
            // deeply nested unknown elements and long runs of entity references / child elements
            if let Some(sheet) = with_rows.as_ref() {
                if let Some(data) = parts.part(sheet) {
                    if let Some(m) = find(&data, b"<sheetData>") {
                        let at = m + b"<sheetData>".len();
                        out.push(vec![
                            zp(sheet, Edit::Repeat { off: at, pattern: b"</x>".to_vec(), count: n, start: 0, step: 0, le: vec![] }, "xml:nest-flood (closing tags)".into()),
                            zp(sheet, Edit::Repeat { off: at, pattern: b"<x>".to_vec(), count: n, start: 0, step: 0, le: vec![] }, format!("xml:nest-flood {} sheetData starts with {} nested unknown elements", sheet, n)),
                        ]);
                    }
                    if let Some(m) = find(&data, b"<v>") {
                        out.push(vec![zp(sheet, Edit::Repeat { off: m + 3, pattern: b"&#49;".to_vec(), count: n, start: 0, step: 0, le: vec![] }, format!("xml:entity-flood {} first <v> starts with {} character references", sheet, n))]);
                        out.push(vec![zp(sheet, Edit::Repeat { off: m, pattern: b"<v>1</v>".to_vec(), count: n, start: 0, step: 0, le: vec![] }, format!("xml:child-flood {} first cell given {} <v> children", sheet, n))]);
                    }
                }
            }
            if let Some(data) = parts.part("xl/sharedStrings.xml") {
                if let Some(m) = find(&data, b"<t>").or_else(|| find(&data, b"<t ")) {
                    if let Some(gt) = data[m..].iter().position(|c| *c == b'>') {
                        out.push(vec![zp("xl/sharedStrings.xml", Edit::Repeat { off: m + gt + 1, pattern: b"&amp;".to_vec(), count: n, start: 0, step: 0, le: vec![] }, format!("xml:entity-flood xl/sharedStrings.xml first <t> starts with {} entity references", n))]);
                        out.push(vec![zp("xl/sharedStrings.xml", Edit::Repeat { off: m, pattern: b"<r><t>x</t></r><rPh><t>y</t></rPh>".to_vec(), count: n, start: 0, step: 0, le: vec![] }, format!("xml:child-flood xl/sharedStrings.xml first string item given {} rich-text and phonetic runs", n))]);
                        out.push(vec![zp("xl/sharedStrings.xml", Edit::Repeat { off: m, pattern: b"<r><t>0123456789abcdef0123456789abcdef</t></r>".to_vec(), count: n, start: 0, step: 0, le: vec![] }, format!("xml:child-flood xl/sharedStrings.xml first string item given {} rich-text runs of 32 characters", n))]);
                    }
                }
            }
            // one element with very many attributes (attribute iterators that check for duplicate
            // names compare each attribute with all earlier ones)
            for (part, tag) in [("xl/workbook.xml", &b"<sheet "[..]), ("xl/_rels/workbook.xml.rels", b"<Relationship "), ("xl/styles.xml", b"<xf "), ("xl/sharedStrings.xml", b"<sst ")] {
                if let Some(data) = parts.part(part) {
                    if let Some(m) = find(&data, tag) {
                        out.push(vec![zp(part, Edit::Repeat { off: m + tag.len(), pattern: b"a{#}=\"1\" ".to_vec(), count: n, start: 0, step: 1, le: vec![] }, format!("xml:attr-flood {} first {} element given {} attributes", part, String::from_utf8_lossy(tag).trim(), n))]);
                    }
                }
            }
            if let Some(sheet) = with_rows.as_ref() {
                if let Some(data) = parts.part(sheet) {
                    for tag in [&b"<c "[..], b"<row ", b"<f "] {
                        if let Some(m) = find(&data, tag) {
                            out.push(vec![zp(sheet, Edit::Repeat { off: m + tag.len(), pattern: b"a{#}=\"1\" ".to_vec(), count: n, start: 0, step: 1, le: vec![] }, format!("xml:attr-flood {} first {} element given {} attributes", sheet, String::from_utf8_lossy(tag).trim(), n))]);
                        }
                    }
                }
            }
        }
        Format::Ods => {
            if let Some(data) = parts.part("content.xml") {
                if let Some(m) = find(&data, b"<table:table ") {
                    out.push(vec![zp("content.xml", Edit::Repeat { off: m, pattern: b"<table:table table:name=\"t{#}\"><table:table-row><table:table-cell office:value-type=\"float\" office:value=\"{#}\"/></table:table-row></table:table>".to_vec(), count: n, start: 1, step: 1, le: vec![] }, format!("xml:amplify content.xml {} generated tables", n))]);
                }
            }
            if let Some(data) = parts.part("content.xml") {
                // the first paragraph of a *string* cell (the reader builds the text of those only)
                let cell = find(&data, b"office:value-type=\"string\"").unwrap_or(0);
                if let Some(m) = find(&data[cell..], b"<text:p>").map(|m| m + cell) {
                    let at = m + b"<text:p>".len();
                    out.push(vec![zp("content.xml", Edit::Repeat { off: at, pattern: b"&amp;".to_vec(), count: n, start: 0, step: 0, le: vec![] }, format!("xml:entity-flood content.xml first <text:p> starts with {} entity references", n))]);
                    out.push(vec![zp("content.xml", Edit::Repeat { off: at, pattern: b"<text:span>a</text:span><text:s/>".to_vec(), count: n, start: 0, step: 0, le: vec![] }, format!("xml:child-flood content.xml first <text:p> given {} spans and spaces", n))]);
                    out.push(vec![zp("content.xml", Edit::Repeat { off: at, pattern: b"<text:span>0123456789abcdef0123456789abcdef</text:span>".to_vec(), count: n, start: 0, step: 0, le: vec![] }, format!("xml:child-flood content.xml first <text:p> given {} spans of 32 characters", n))]);
                    out.push(vec![
                        zp("content.xml", Edit::Repeat { off: at, pattern: b"</text:span>".to_vec(), count: n, start: 0, step: 0, le: vec![] }, "xml:nest-flood (closing tags)".into()),
                        zp("content.xml", Edit::Repeat { off: at, pattern: b"<text:span>".to_vec(), count: n, start: 0, step: 0, le: vec![] }, format!("xml:nest-flood content.xml first <text:p> holds {} nested spans", n)),
                    ]);
                }
            }
            if let Some(data) = parts.part("content.xml") {
                for tag in [&b"<table:table-cell "[..], b"<table:table-row ", b"<table:table ", b"<text:p"] {
                    if let Some(m) = find(&data, tag) {
                        out.push(vec![zp("content.xml", Edit::Repeat { off: m + tag.len(), pattern: b" a{#}=\"1\" ".to_vec(), count: n, start: 0, step: 1, le: vec![] }, format!("xml:attr-flood content.xml first {} element given {} attributes", String::from_utf8_lossy(tag).trim(), n))]);
                    }
                }
            }
            if let Some(data) = parts.part("content.xml") {
                if let Some(m) = find(&data, b"<table:table ") {
                    if let Some(gt) = data[m..].iter().position(|c| *c == b'>') {
                        let at = m + gt + 1;
                        out.push(vec![zp("content.xml", Edit::Repeat { off: at, pattern: b"<table:table-row><table:table-cell office:value-type=\"float\" office:value=\"{#}\"/><table:table-cell office:value-type=\"string\"><text:p>s{#}</text:p></table:table-cell></table:table-row>".to_vec(), count: n, start: 1, step: 1, le: vec![] }, format!("xml:amplify content.xml {} generated rows", n))]);
                        out.push(vec![
                            zp("content.xml", Edit::Insert { off: at, bytes: b"<table:table-row></table:table-row>".to_vec() }, "xml:amplify (one row)".into()),
                            zp("content.xml", Edit::Repeat { off: at + b"<table:table-row>".len(), pattern: b"<table:table-cell office:value-type=\"float\" office:value=\"{#}\"/>".to_vec(), count: n, start: 1, step: 1, le: vec![] }, format!("xml:amplify content.xml one row with {} generated cells", n)),
                        ]);
                    }
                }
            }
        }
        Format::Xlsb => {
            if let Some(sheet) = names.iter().find(|n| n.starts_with("xl/worksheets/sheet") && n.ends_with(".bin")) {
                if let Some(data) = parts.part(sheet) {
                    if let Some(r) = xlsb_records(&data).into_iter().find(|r| r.typ == 0x0091) {
                        let at = r.off + r.hdr + r.len;
                        // BrtRowHdr (17 bytes) + BrtCellReal (16 bytes)
                        let mut pat = vec![0x00u8, 17];
                        pat.extend_from_slice(&[0u8; 17]);
                        pat.extend_from_slice(&[0x05, 16]);
                        pat.extend_from_slice(&[0u8; 8]);
                        pat.extend_from_slice(&1.5f64.to_le_bytes());
                        for (what, start, step) in [("descending rows", n as i64, -1i64), ("ascending rows", 0, 1)] {
                            out.push(vec![zp(sheet, Edit::Repeat { off: at, pattern: pat.clone(), count: n, start, step, le: vec![(2, 4)] }, format!("xlsb:amplify {} {} generated row+cell records, {}", sheet, n, what))]);
                        }
                        // many cells of one row in descending column order
                        let mut cell = vec![0x05u8, 16];
                        cell.extend_from_slice(&[0u8; 8]);
                        cell.extend_from_slice(&2.5f64.to_le_bytes());
                        let mut rowhdr = vec![0x00u8, 17];
                        rowhdr.extend_from_slice(&[0u8; 17]);
                        out.push(vec![
                            zp(sheet, Edit::Insert { off: at, bytes: rowhdr.clone() }, "xlsb:amplify (row header)".into()),
                            zp(sheet, Edit::Repeat { off: at + rowhdr.len(), pattern: cell, count: n.min(16000), start: n.min(16000) as i64, step: -1, le: vec![(2, 4)] }, format!("xlsb:amplify {} one row with {} cells in descending column order", sheet, n.min(16000))),
                        ]);
                    }
                }
            }
            if let Some(data) = parts.part("xl/workbook.bin") {
                // after BrtEndBundleShs: BrtName records (flags, key, sheet, name, formula = PtgInt 1);
                // the name is "n" + four hexadecimal-looking UTF-16 units written by the counter
                if let Some(r) = xlsb_records(&data).into_iter().find(|r| r.typ == 0x0090) {
                    let mut payload = vec![0u8; 9];
                    payload.extend_from_slice(&3u32.to_le_bytes());
                    payload.extend_from_slice(&[b'n', 0, 0x41, 0x4E, 0x41, 0x4E]); // two CJK units overwritten by the counter
                    payload.extend_from_slice(&3u32.to_le_bytes());
                    payload.extend_from_slice(&[0x1E, 1, 0]);
                    let mut rec = vec![0x27u8, payload.len() as u8];
                    rec.extend_from_slice(&payload);
                    // the counter goes into the two UTF-16 units after the 'n' (offset 2 + 9 + 4 + 2)
                    out.push(vec![zp("xl/workbook.bin", Edit::Repeat { off: r.off + r.hdr + r.len, pattern: rec, count: n, start: 0x4E00_4E00, step: 1, le: vec![(17, 4)] }, format!("xlsb:amplify workbook.bin {} generated defined names", n))]);
                }
            }
            if let Some(data) = parts.part("xl/sharedStrings.bin") {
                if let Some(r) = xlsb_records(&data).into_iter().find(|r| r.typ == 0x009F) {
                    // BrtSSTItem: flags + wide string "ab"
                    let pat = vec![0x13u8, 9, 0, 2, 0, 0, 0, b'a', 0, b'b', 0];
                    let cnt_off = r.off + r.hdr + 4;
                    out.push(vec![
                        zp("xl/sharedStrings.bin", Edit::Repeat { off: r.off + r.hdr + r.len, pattern: pat, count: n, start: 0, step: 1, le: vec![] }, format!("xlsb:amplify sharedStrings.bin {} generated items", n)),
                        zp("xl/sharedStrings.bin", Edit::Set { off: cnt_off, bytes: n.to_le_bytes().to_vec() }, "xlsb:amplify (unique count raised)".into()),
                    ]);
                }
            }
        }
        Format::Xls => {
            if let Some(l) = parts.cfb.clone() {
                let streams = cfbfmt::all_streams(&fx.bytes, &l);
                for (e, s) in l.dir.iter().zip(&streams) {
                    if e.typ != 2 || !(e.name == "Workbook" || e.name == "Book") || s.is_empty() {
                        continue;
                    }
                    // a long stream: the workbook followed by zero sectors (one chain of many sectors)
                    out.push(vec![StoredFault {
                        layer: Layer::CfbStream { stream: e.name.clone() },
                        edit: Some(Edit::Repeat { off: s.len(), pattern: vec![0u8; 512], count: n.min(16000), start: 0, step: 0, le: vec![] }),
                        why: format!("cfb:stream-pad {} followed by {} sectors of zeros", e.name, n.min(16000)),
                    }]);
                    // after the DIMENSIONS record of the *last* worksheet: the BoundSheet records hold
                    // absolute stream positions, and an insertion before another sheet would misplace it
                    if let Some(r) = biff_records(s).into_iter().filter(|r| r.typ == 0x0200).last() {
                        let at = r.off + r.hdr + r.len;
                        let mut pat = vec![0x03u8, 0x02, 14, 0];
                        pat.extend_from_slice(&[0u8; 6]);
                        pat.extend_from_slice(&3.5f64.to_le_bytes());
                        let cnt = n.min(65000);
                        for (what, start, step) in [("descending rows", cnt as i64, -1i64), ("ascending rows", 0, 1)] {
                            out.push(vec![StoredFault {
                                layer: Layer::CfbStream { stream: e.name.clone() },
                                edit: Some(Edit::Repeat { off: at, pattern: pat.clone(), count: cnt, start, step, le: vec![(4, 2)] }),
                                why: format!("biff:amplify {} {} generated NUMBER records, {}", e.name, cnt, what),
                            }]);
                        }
                        // the other cell record types, one row each (the row number is the counter)
                        let rec = |typ: u16, body: &[u8]| -> Vec<u8> {
                            let mut v = typ.to_le_bytes().to_vec();
                            v.extend_from_slice(&(body.len() as u16).to_le_bytes());
                            v.extend_from_slice(body);
                            v
                        };
                        let mut formula = vec![0u8; 6];
                        formula.extend_from_slice(&[0x00, 0, 0, 0, 0, 0, 0xFF, 0xFF]); // the value is a string, in the next record
                        formula.extend_from_slice(&[0, 0, 0, 0, 0, 0]); // flags, chn
                        formula.extend_from_slice(&[3, 0, 0x1E, 1, 0]); // cce, PtgInt 1
                        let mut pair = rec(0x0006, &formula);
                        pair.extend_from_slice(&rec(0x0207, &[3, 0, 0, b'a', b'b', b'c']));
                        let kinds: Vec<(&str, Vec<u8>)> = vec![
                            ("RK", rec(0x027E, &[0, 0, 0, 0, 0, 0, 0x00, 0x00, 0xF0, 0x3F])),
                            ("BOOLERR", rec(0x0205, &[0, 0, 0, 0, 0, 0, 1, 0])),
                            ("LABELSST", rec(0x00FD, &[0, 0, 0, 0, 0, 0, 0, 0, 0, 0])),
                            ("LABEL", rec(0x0204, &[0, 0, 0, 0, 0, 0, 3, 0, 0, b'x', b'y', b'z'])),
                            ("FORMULA + STRING", pair),
                            ("MULRK", rec(0x00BD, &[0, 0, 0, 0, 0, 0, 0x00, 0x00, 0xF0, 0x3F, 0, 0, 0x00, 0x00, 0xF0, 0x3F, 1, 0])),
                            ("MERGECELLS", {
                                // rows of the one range are written by the counter too (offsets 6 and 8 of the record)
                                rec(0x00E5, &[1, 0, 0, 0, 0, 0, 0, 0, 1, 0])
                            }),
                        ];
                        for (name, pat) in kinds {
                            let le = if name == "MERGECELLS" { vec![(6u16, 2u8), (8, 2)] } else { vec![(4, 2)] };
                            out.push(vec![StoredFault {
                                layer: Layer::CfbStream { stream: e.name.clone() },
                                edit: Some(Edit::Repeat { off: at, pattern: pat, count: cnt, start: 0, step: 1, le }),
                                why: format!("biff:amplify {} {} generated {} records", e.name, cnt, name),
                            }]);
                        }
                    }
                }
            }
        }
    }
    out
}

pub fn sites(fx: &Fixture, parts: &mut Parts, tier: Tier) -> Vec<SiteGroup> {
    let caps = Caps::of(tier);
    let mut ch = Chooser::new(hbytes(fx.name.as_bytes()), "sites");
    let img: &[u8] = &fx.bytes;
    let mut all: Vec<SiteGroup> = Vec::new();
    let mut push = |inner: Option<String>, fs: Vec<StoredFault>, all: &mut Vec<SiteGroup>| {
        for g in group(fs) {
            all.push(SiteGroup { inner: inner.clone(), faults: g, light: false, scaling: false });
        }
    };
    // ---- layer 0 ----
    let mut boundaries: Vec<usize> = Vec::new();
    if let Some(l) = parts.cfb.clone() {
        boundaries.extend((1..=l.n_sectors.min(64)).map(|s| s * l.ssz));
        for e in &l.dir {
            boundaries.push(e.offset);
        }
    }
    if let Some((eocd, cds, lhs)) = zipfmt::offsets(img) {
        boundaries.push(eocd);
        boundaries.extend(cds);
        boundaries.extend(lhs.iter().map(|o| o + 30));
        boundaries.extend(lhs);
    }
    push(None, raw_truncations(img, &boundaries, &caps, &mut ch), &mut all);
    push(None, raw_generic(img, &caps, &mut ch), &mut all);
    if let Some(l) = parts.cfb.clone() {
        push(None, cfb_sites(img, &l, &caps, &mut ch), &mut all);
    }
    if parts.zip.is_some() {
        push(None, zip_raw_sites(img, &caps), &mut all);
    }
    // ---- layer 1: zip parts ----
    if let Some(entries) = parts.zip.clone() {
        let names: Vec<String> = entries.iter().map(|e| e.name.clone()).take(caps.parts).collect();
        let sizes: Vec<usize> = entries.iter().map(|e| e.usize_ as usize).take(caps.parts).collect();
        push(None, zip_structural(&names, &sizes), &mut all);
        for n in &names {
            let data = match parts.part(n) {
                Some(d) => d,
                None => continue,
            };
            if data.is_empty() {
                continue;
            }
            if is_xml_part(n) {
                push(None, xml_faults(n, &data, &caps, &mut ch), &mut all);
                push(None, xml_string_attr_faults(n, &data, &caps, &mut ch), &mut all);
                push(None, xml_attr_inject(n, &data, &caps, &mut ch), &mut all);
                push(None, xml_tag_faults(n, &data, &caps), &mut all);
                push(None, part_truncations(n, &data, &caps, &mut ch), &mut all);
                push(None, part_flips(n, &data, caps.flips / 2, &mut ch), &mut all);
            } else if is_record_part(n) {
                let nn = n.clone();
                let mk = move |e: Edit, why: String| StoredFault { layer: Layer::ZipPart { part: nn.clone(), pack: if why.len() % 2 == 0 { Pack::Stored } else { Pack::Deflated } }, edit: Some(e), why };
                push(None, record_faults(n, &data, false, &caps, &mut ch, &mk), &mut all);
                push(None, xlsb_formula_nesting(n, &data), &mut all);
                push(None, rgce_truncations(n, &data, false, &mk), &mut all);
                push(None, part_truncations(n, &data, &caps, &mut ch), &mut all);
                push(None, part_flips(n, &data, caps.flips / 2, &mut ch), &mut all);
            } else if n.ends_with("vbaProject.bin") {
                // the nested compound file: (a) through the workbook's `vba_project()`, raw faults
                // inside the part; (b) as an image of its own through `VbaProject::new`
                if let Some(l) = cfbfmt::parse(&data) {
                    let inner_sites = cfb_sites(&data, &l, &caps, &mut ch);
                    let via_zip: Vec<StoredFault> = inner_sites
                        .iter()
                        .map(|f| StoredFault { layer: Layer::ZipPart { part: n.clone(), pack: Pack::Deflated }, edit: f.edit.clone(), why: format!("vba-in-zip:{}", f.why) })
                        .collect();
                    push(None, via_zip, &mut all);
                    push(Some(n.clone()), inner_sites, &mut all);
                    push(Some(n.clone()), raw_truncations(&data, &[], &caps, &mut ch), &mut all);
                    push(Some(n.clone()), raw_generic(&data, &caps, &mut ch), &mut all);
                    // streams of the project: the compressed `dir` stream and the module streams
                    let streams = cfbfmt::all_streams(&data, &l);
                    for (e, s) in l.dir.iter().zip(&streams) {
                        if e.typ != 2 || s.is_empty() {
                            continue;
                        }
                        let mut fs = Vec::new();
                        let limit = if e.name == "dir" { caps.flips * 4 } else { caps.flips / 2 };
                        for k in 0..s.len().min(limit) {
                            for val in [0x00u8, 0xFF, s[k] ^ 0x10] {
                                if val != s[k] {
                                    fs.push(StoredFault {
                                        layer: Layer::CfbStream { stream: e.name.clone() },
                                        edit: Some(Edit::Set { off: k, bytes: vec![val] }),
                                        why: format!("vba:stream-byte {} offset {} {:#04x} -> {:#04x}", e.name, k, s[k], val),
                                    });
                                }
                            }
                        }
                        for cut in [0usize, 1, 2, 3, s.len() / 2, s.len().saturating_sub(1)] {
                            fs.push(StoredFault {
                                layer: Layer::CfbStream { stream: e.name.clone() },
                                edit: Some(Edit::Trunc { len: cut }),
                                why: format!("vba:stream-trunc {} at {} of {}", e.name, cut, s.len()),
                            });
                        }
                        push(Some(n.clone()), fs.clone(), &mut all);
                        // and the same stream faults reached through the workbook
                        let via: Vec<StoredFault> = fs
                            .into_iter()
                            .step_by(3)
                            .map(|f| StoredFault {
                                layer: Layer::ZipCfbStream { part: n.clone(), stream: e.name.clone() },
                                edit: f.edit,
                                why: format!("vba-in-zip:{}", f.why),
                            })
                            .collect();
                        push(None, via, &mut all);
                    }
                }
            }
        }
    }
    // ---- amplification (every fixture in the thorough tier, the any_sheets.* quartet in quick) ----
    let amp_n = match tier {
        Tier::Quick => 100_000,
        Tier::Thorough => 250_000,
    };
    if tier == Tier::Thorough || fx.name.starts_with("any_sheets.") || fx.name.starts_with("issues.") || fx.name.starts_with("date.") || fx.name.starts_with("vba.") {
        if tier == Tier::Thorough || fx.name.starts_with("any_sheets.") {
            for g in amplify_sites(fx, parts, amp_n) {
                all.push(SiteGroup { inner: None, faults: g, light: true, scaling: false });
            }
        }
        let thorough = tier == Tier::Thorough;
        if let Some(l) = parts.cfb.clone() {
            for g in cfb_bombs(img, &l, if thorough { 4000 } else { 600 }) {
                all.push(SiteGroup { inner: None, faults: g, light: true, scaling: false });
            }
        }
        if let Some(data) = parts.part("xl/vbaProject.bin") {
            if let Some(l) = cfbfmt::parse(&data) {
                for g in cfb_bombs(&data, &l, if thorough { 4000 } else { 600 }) {
                    all.push(SiteGroup { inner: Some("xl/vbaProject.bin".into()), faults: g, light: true, scaling: false });
                }
            }
        }
        match fx.format {
            Format::Xlsb => {
                let names: Vec<String> = parts.zip.as_ref().map(|z| z.iter().map(|e| e.name.clone()).collect()).unwrap_or_default();
                for n in names.iter().filter(|n| is_record_part(n)) {
                    if let Some(data) = parts.part(n) {
                        let nn = n.clone();
                        let mk = move |e: Edit, why: String| StoredFault { layer: Layer::ZipPart { part: nn.clone(), pack: Pack::Deflated }, edit: Some(e), why };
                        for g in record_bombs(n, &data, false, thorough, &mk) {
                            all.push(SiteGroup { inner: None, faults: g, light: true, scaling: false });
                        }
                        if n.contains("worksheets/") {
                            for g in type_length_sweep(n, &data, false, &mk) {
                                all.push(SiteGroup { inner: None, faults: g, light: false, scaling: false });
                            }
                        }
                    }
                }
            }
            Format::Xls => {
                if let Some(l) = parts.cfb.clone() {
                    let streams = cfbfmt::all_streams(img, &l);
                    for (e, st) in l.dir.iter().zip(&streams) {
                        if e.typ == 2 && (e.name == "Workbook" || e.name == "Book") && !st.is_empty() {
                            let nm = e.name.clone();
                            let mk = move |ed: Edit, why: String| StoredFault { layer: Layer::CfbStream { stream: nm.clone() }, edit: Some(ed), why };
                            for g in record_bombs(&e.name, st, true, thorough, &mk) {
                                all.push(SiteGroup { inner: None, faults: g, light: true, scaling: false });
                            }
                            for g in type_length_sweep(&e.name, st, true, &mk) {
                                all.push(SiteGroup { inner: None, faults: g, light: false, scaling: false });
                            }
                        }
                    }
                }
            }
            _ => {}
        }
    }
    // ---- layer 1: BIFF workbook stream of an xls file ----
    if fx.format == Format::Xls {
        if let Some(l) = parts.cfb.clone() {
            let streams = cfbfmt::all_streams(img, &l);
            for (e, s) in l.dir.iter().zip(&streams) {
                if e.typ != 2 || s.is_empty() {
                    continue;
                }
                if e.name == "Workbook" || e.name == "Book" {
                    let nm = e.name.clone();
                    let mk = move |ed: Edit, why: String| StoredFault { layer: Layer::CfbStream { stream: nm.clone() }, edit: Some(ed), why };
                    push(None, record_faults(&e.name, s, true, &caps, &mut ch, &mk), &mut all);
                    push(None, rgce_truncations(&e.name, s, true, &mk), &mut all);
                    let mut fs = Vec::new();
                    for _ in 0..caps.flips {
                        let off = ch.below(s.len() as u64) as usize;
                        let bit = ch.below(8) as u8;
                        fs.push(StoredFault {
                            layer: Layer::CfbStream { stream: e.name.clone() },
                            edit: Some(Edit::Set { off, bytes: vec![s[off] ^ (1 << bit)] }),
                            why: format!("part:bitflip stream {} offset {} bit {}", e.name, off, bit),
                        });
                    }
                    push(None, fs, &mut all);
                } else if e.name == "dir" {
                    let mut fs = Vec::new();
                    for k in 0..s.len().min(caps.flips * 2) {
                        fs.push(StoredFault {
                            layer: Layer::CfbStream { stream: e.name.clone() },
                            edit: Some(Edit::Set { off: k, bytes: vec![s[k] ^ 0xFF] }),
                            why: format!("vba:stream-byte {} offset {} inverted", e.name, k),
                        });
                    }
                    push(None, fs, &mut all);
                }
            }
        }
    }
    all.extend(crate::coord::coordinated(fx, parts, tier));
    // growth measurements: every amplified site once more, as a scaling run (quick: the
    // any_sheets quartet only)
    if tier == Tier::Thorough || fx.name.starts_with("any_sheets.") {
        let scaled: Vec<SiteGroup> = all
            .iter()
            .filter(|g| g.light && g.faults.iter().any(|f| matches!(&f.edit, Some(Edit::Repeat { count, .. }) if *count >= 8000)))
            .map(|g| SiteGroup { scaling: true, ..g.clone() })
            .collect();
        all.extend(scaled);
    }
    all
}
