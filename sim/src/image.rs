//! Builds the damaged device image of a C06 run from a fixture and a list of stored faults.

use crate::cfbfmt;
use crate::spec::{Layer, Pack, StoredFault};
use crate::zipfmt::{self, ZEntry};
use std::collections::HashMap;

/// Per-fixture parsed containers (cached in the worker).
#[derive(Default)]
pub struct Parts {
    pub zip: Option<Vec<ZEntry>>,
    pub inflated: HashMap<String, Vec<u8>>,
    pub cfb: Option<cfbfmt::Layout>,
}

impl Parts {
    pub fn new(bytes: &[u8]) -> Parts {
        let zip = zipfmt::parse(bytes);
        let cfb = cfbfmt::parse(bytes);
        Parts { zip, inflated: HashMap::new(), cfb }
    }
    pub fn part(&mut self, name: &str) -> Option<Vec<u8>> {
        if let Some(v) = self.inflated.get(name) {
            return Some(v.clone());
        }
        let e = self.zip.as_ref()?.iter().find(|e| e.name == name)?;
        let v = zipfmt::inflate(e)?;
        self.inflated.insert(name.to_string(), v.clone());
        Some(v)
    }
}

pub struct Built {
    pub image: Vec<u8>,
    /// per stored fault: a byte range of the image whose delivery means the fault was consumed
    pub probes: Vec<(u64, u64)>,
}

pub fn kind_of(f: &StoredFault) -> String {
    f.why.split(' ').next().unwrap_or("?").to_string()
}

pub fn build(base: &[u8], parts: &mut Parts, inner: Option<&str>, faults: &[StoredFault]) -> Result<Built, String> {
    let mut probes = vec![(0u64, 0u64); faults.len()];
    // 0. the image is a part extracted from the fixture
    let mut inner_parts;
    let (mut image, parts): (Vec<u8>, &mut Parts) = match inner {
        Some(p) => {
            let b = parts.part(p).ok_or_else(|| format!("no part {}", p))?;
            inner_parts = Parts::new(&b);
            (b, &mut inner_parts)
        }
        None => (base.to_vec(), parts),
    };
    // 1. zip layer
    let zip_layer = faults.iter().any(|f| !matches!(f.layer, Layer::Raw | Layer::CfbStream { .. }));
    if zip_layer {
        let mut entries = parts.zip.clone().ok_or("fixture is not a zip container")?;
        let mut touched: Vec<(usize, String)> = Vec::new();
        for (fi, f) in faults.iter().enumerate() {
            match &f.layer {
                Layer::ZipPart { part, pack } => {
                    let idx = entries.iter().position(|e| e.name == *part).ok_or_else(|| format!("no part {}", part))?;
                    let mut data = zipfmt::inflate(&entries[idx]).ok_or("inflate failed")?;
                    if let Some(e) = &f.edit {
                        e.apply(&mut data);
                    }
                    entries[idx] = zipfmt::make_entry(part, &data, *pack);
                    touched.push((fi, part.clone()));
                }
                Layer::ZipCfbStream { part, stream } => {
                    let idx = entries.iter().position(|e| e.name == *part).ok_or_else(|| format!("no part {}", part))?;
                    let data = zipfmt::inflate(&entries[idx]).ok_or("inflate failed")?;
                    let l = cfbfmt::parse(&data).ok_or("inner part is not a compound file")?;
                    let mut streams = cfbfmt::all_streams(&data, &l);
                    let si = l.dir.iter().position(|d| d.typ == 2 && d.name == *stream).ok_or_else(|| format!("no stream {}", stream))?;
                    if let Some(e) = &f.edit {
                        e.apply(&mut streams[si]);
                    }
                    let (img, _) = cfbfmt::write(&l.dir, &streams);
                    entries[idx] = zipfmt::make_entry(part, &img, Pack::Deflated);
                    touched.push((fi, part.clone()));
                }
                Layer::ZipPartDelete { part } => {
                    entries.retain(|e| e.name != *part);
                    touched.push((fi, String::new()));
                }
                Layer::ZipPartRename { part, to } => {
                    for e in entries.iter_mut() {
                        if e.name == *part {
                            e.name = to.clone();
                        }
                    }
                    touched.push((fi, to.clone()));
                }
                Layer::ZipPartSwap { part, with } => {
                    let a = entries.iter().position(|e| e.name == *part);
                    let b = entries.iter().position(|e| e.name == *with);
                    if let (Some(a), Some(b)) = (a, b) {
                        let (na, nb) = (entries[a].name.clone(), entries[b].name.clone());
                        entries.swap(a, b);
                        entries[a].name = na;
                        entries[b].name = nb;
                    }
                    touched.push((fi, part.clone()));
                }
                Layer::Raw | Layer::CfbStream { .. } => {}
            }
        }
        let (img, ranges) = zipfmt::write(&entries);
        for (fi, name) in touched {
            probes[fi] = match ranges.iter().find(|r| r.0 == name) {
                Some(r) if r.2 > r.1 => (r.1, r.2),
                // structural faults and emptied parts: consumed when the end-of-central-directory was read
                _ => (img.len().saturating_sub(22) as u64, img.len() as u64),
            };
        }
        image = img;
    }
    // 2. compound-file stream layer
    if faults.iter().any(|f| matches!(f.layer, Layer::CfbStream { .. })) {
        let l = if zip_layer { cfbfmt::parse(&image) } else { parts.cfb.clone() }.ok_or("image is not a compound file")?;
        let mut streams = cfbfmt::all_streams(&image, &l);
        let mut touched = Vec::new();
        for (fi, f) in faults.iter().enumerate() {
            if let Layer::CfbStream { stream } = &f.layer {
                let si = l.dir.iter().position(|d| d.typ == 2 && d.name == *stream).ok_or_else(|| format!("no stream {}", stream))?;
                if let Some(e) = &f.edit {
                    e.apply(&mut streams[si]);
                }
                touched.push((fi, si));
            }
        }
        let (img, ranges) = cfbfmt::write(&l.dir, &streams);
        for (fi, si) in touched {
            probes[fi] = if ranges[si].1 > ranges[si].0 { ranges[si] } else { (0, 512) };
        }
        image = img;
    }
    // 3. raw layer, on the final image
    for (fi, f) in faults.iter().enumerate() {
        if let (Layer::Raw, Some(e)) = (&f.layer, &f.edit) {
            e.apply(&mut image);
            probes[fi] = match e {
                crate::spec::Edit::Trunc { len } => ((*len as u64).saturating_sub(16), (*len as u64).max(1)),
                crate::spec::Edit::Set { off, bytes } => (*off as u64, (*off + bytes.len().max(1)) as u64),
                crate::spec::Edit::Delete { off, .. } => (*off as u64, *off as u64 + 16),
                crate::spec::Edit::Insert { off, bytes } => (*off as u64, (*off + bytes.len().max(1)) as u64),
                crate::spec::Edit::Repeat { off, .. } => (*off as u64, *off as u64 + 64),
            };
        }
    }
    Ok(Built { image, probes })
}
