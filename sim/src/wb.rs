//! A uniform handle over the four readers, auto-detection and the direct VBA entry, the
//! operation alphabet driven by the engines, and canonical result serialisation.

use crate::corpus::Format;
use crate::guard::{self, PanicRec};
use crate::prng::Sig;
use crate::simdisk::SimDisk;
use calamine::vba::VbaProject;
use calamine::{
    open_workbook_auto_from_rs, Data, DataRef, Dimensions, HeaderRow, Ods, Range, Reader, ReaderRef, Sheets, Xls,
    Xlsb, Xlsx,
};
use serde::{Deserialize, Serialize};
use std::panic::{catch_unwind, AssertUnwindSafe};

#[derive(Clone, Copy, Debug, PartialEq, Eq, Hash, Serialize, Deserialize, PartialOrd, Ord)]
pub enum Entry {
    Xls,
    Xlsx,
    Xlsb,
    Ods,
    Auto,
    /// `VbaProject::new` straight over the stream (compound files only make sense here)
    Vba,
}

impl Entry {
    pub fn own(f: Format) -> Entry {
        match f {
            Format::Xls => Entry::Xls,
            Format::Xlsx => Entry::Xlsx,
            Format::Xlsb => Entry::Xlsb,
            Format::Ods => Entry::Ods,
        }
    }
    pub fn name(self) -> &'static str {
        match self {
            Entry::Xls => "Xls::new",
            Entry::Xlsx => "Xlsx::new",
            Entry::Xlsb => "Xlsb::new",
            Entry::Ods => "Ods::new",
            Entry::Auto => "open_workbook_auto_from_rs",
            Entry::Vba => "VbaProject::new",
        }
    }
}

pub enum Wb {
    Xls(Xls<SimDisk>),
    Xlsx(Xlsx<SimDisk>),
    Xlsb(Xlsb<SimDisk>),
    Ods(Ods<SimDisk>),
    Auto(Sheets<SimDisk>),
    Vba(VbaProject),
}

#[derive(Clone, Debug, PartialEq, Eq, Hash, Serialize, Deserialize)]
pub enum SheetArg {
    /// the k-th sheet name of the opened workbook (an unknown name if out of range)
    Idx(usize),
    /// a literal name
    Lit(String),
}

#[derive(Clone, Debug, PartialEq, Eq, Hash, Serialize, Deserialize)]
pub enum Op {
    SetHeader(Option<u32>),
    Range(SheetArg),
    RangeRef(SheetArg),
    RangeAt(usize),
    RangeAtRef(usize),
    Worksheets,
    Formula(SheetArg),
    MergeCells(SheetArg),
    MergeCellsAt(usize),
    LoadMerged,
    MergedAll,
    MergedBySheet(SheetArg),
    LoadTables,
    TableNames,
    TableNamesInSheet(SheetArg),
    TableByName(SheetArg),
    TableByNameRef(SheetArg),
    Vba,
    Meta,
    /// the bounded API sweep of DESIGN §3, expanded at run time from the sheet names
    Sweep,
    /// Only meaningful as the first entry of a history: the reader is *constructed* with this header
    /// row (`Xls::new_with_options`, the one reader that takes the option at construction) instead
    /// of receiving it through `with_header_row` afterwards.  As a call it does nothing.
    OpenWith(u32),
}

impl Op {
    /// Does this call touch the device in a lazy format?
    pub fn does_io_when_lazy(&self) -> bool {
        !matches!(
            self,
            Op::SetHeader(_) | Op::OpenWith(_) | Op::MergedAll | Op::MergedBySheet(_) | Op::TableNames | Op::TableNamesInSheet(_) | Op::Meta
        )
    }
}

#[derive(Clone, Debug, PartialEq, Eq)]
pub struct Canon {
    pub h: u64,
    pub brief: String,
}

#[derive(Clone, Debug)]
pub enum Outcome {
    Ok(Canon),
    Err(String),
    /// `Option`-returning call answered `None`
    Absent,
    Skipped(&'static str),
    Panic(PanicRec),
}

/// The variant name of an error's `Debug` text (`Io(Custom { .. })` -> `Io`)
pub fn err_variant(e: &str) -> &str {
    let end = e.find(|c: char| !(c.is_ascii_alphanumeric() || c == '_')).unwrap_or(e.len());
    &e[..end]
}

impl Outcome {
    /// Equality used by the refinement check: same class and same canonical content; two
    /// panics are equal when they come from the same origin (keeps C07 orthogonal to C06/C08).
    pub fn same(&self, o: &Outcome) -> bool {
        match (self, o) {
            (Outcome::Ok(a), Outcome::Ok(b)) => a.h == b.h,
            // two errors agree when they are the same variant: the payload (a message, a wrapped
            // source, a list in hash order) is not a result the properties compare
            (Outcome::Err(a), Outcome::Err(b)) => err_variant(a) == err_variant(b),
            (Outcome::Absent, Outcome::Absent) => true,
            (Outcome::Skipped(_), Outcome::Skipped(_)) => true,
            (Outcome::Panic(a), Outcome::Panic(b)) => a.origin == b.origin,
            _ => false,
        }
    }
    pub fn class(&self) -> &'static str {
        match self {
            Outcome::Ok(_) => "ok",
            Outcome::Err(_) => "err",
            Outcome::Absent => "none",
            Outcome::Skipped(_) => "skipped",
            Outcome::Panic(_) => "panic",
        }
    }
    pub fn brief(&self) -> String {
        match self {
            Outcome::Ok(c) => format!("Ok({} #{:016x})", c.brief, c.h),
            Outcome::Err(e) => format!("Err({})", clip(e, 160)),
            Outcome::Absent => "None".into(),
            Outcome::Skipped(w) => format!("skipped({})", w),
            Outcome::Panic(p) => format!("PANIC {} @ {}", clip(&p.msg, 80), p.origin),
        }
    }
    pub fn sig(&self, s: &mut Sig) {
        match self {
            Outcome::Ok(c) => {
                s.u(1);
                s.u(c.h)
            }
            Outcome::Err(e) => {
                s.u(2);
                s.s(e)
            }
            Outcome::Absent => s.u(3),
            Outcome::Skipped(_) => s.u(4),
            Outcome::Panic(p) => {
                s.u(5);
                s.s(&p.origin)
            }
        }
    }
}

pub fn clip(s: &str, n: usize) -> String {
    if s.len() <= n {
        s.to_string()
    } else {
        let mut k = n;
        while !s.is_char_boundary(k) {
            k -= 1;
        }
        format!("{}…", &s[..k])
    }
}

// ------------------------------------------------------------------------------------------
// canonical serialisation
// ------------------------------------------------------------------------------------------

pub fn sig_data(s: &mut Sig, d: &Data) {
    match d {
        Data::Empty => s.u(0),
        Data::Int(i) => {
            s.u(1);
            s.u(*i as u64)
        }
        Data::Float(f) => {
            s.u(2);
            s.u(f.to_bits())
        }
        Data::String(x) => {
            s.u(3);
            s.s(x)
        }
        Data::Bool(b) => {
            s.u(4);
            s.u(*b as u64)
        }
        Data::DateTime(dt) => {
            s.u(5);
            s.u(dt.as_f64().to_bits());
            s.s(&format!("{:?}", dt))
        }
        Data::DateTimeIso(x) => {
            s.u(6);
            s.s(x)
        }
        Data::DurationIso(x) => {
            s.u(7);
            s.s(x)
        }
        Data::Error(e) => {
            s.u(8);
            s.s(&format!("{:?}", e))
        }
    }
}

pub fn canon_range_data(r: &Range<Data>) -> Canon {
    let mut s = Sig::new();
    sig_bounds(&mut s, r.start(), r.end(), r.get_size());
    let mut n = 0u64;
    let mut used = 0u64;
    for (_, _, v) in r.cells() {
        sig_data(&mut s, v);
        n += 1;
        if *v != Data::Empty {
            used += 1;
        }
    }
    s.u(n);
    Canon { h: s.0, brief: format!("Range {:?}..{:?} cells={} used={}", r.start(), r.end(), n, used) }
}

/// The owned value of a borrowed cell value: the same variant with the same payload.  Written out
/// here so that the library's own `From<DataRef> for Data` is on one side of the comparison only.
pub fn conv(v: &DataRef<'_>) -> Data {
    match v {
        DataRef::Int(x) => Data::Int(*x),
        DataRef::Float(x) => Data::Float(*x),
        DataRef::String(x) => Data::String(x.clone()),
        DataRef::SharedString(x) => Data::String((*x).to_string()),
        DataRef::Bool(x) => Data::Bool(*x),
        DataRef::DateTime(x) => Data::DateTime(*x),
        DataRef::DateTimeIso(x) => Data::DateTimeIso(x.clone()),
        DataRef::DurationIso(x) => Data::DurationIso(x.clone()),
        DataRef::Error(x) => Data::Error(x.clone()),
        DataRef::Empty => Data::Empty,
    }
}

pub fn canon_range_ref(r: &Range<DataRef<'_>>) -> Canon {
    let mut s = Sig::new();
    sig_bounds(&mut s, r.start(), r.end(), r.get_size());
    let mut n = 0u64;
    let mut used = 0u64;
    for (_, _, v) in r.cells() {
        // converted cell by cell, variant for variant (not through the library's `From`, which
        // worksheet_range itself uses: a conversion that loses or changes a value must show)
        let d: Data = conv(v);
        sig_data(&mut s, &d);
        n += 1;
        if d != Data::Empty {
            used += 1;
        }
    }
    s.u(n);
    Canon { h: s.0, brief: format!("Range {:?}..{:?} cells={} used={}", r.start(), r.end(), n, used) }
}

pub fn canon_range_str(r: &Range<String>) -> Canon {
    let mut s = Sig::new();
    sig_bounds(&mut s, r.start(), r.end(), r.get_size());
    let mut n = 0u64;
    let mut used = 0u64;
    for (_, _, v) in r.cells() {
        s.s(v);
        n += 1;
        if !v.is_empty() {
            used += 1;
        }
    }
    s.u(n);
    Canon { h: s.0, brief: format!("Formulas {:?}..{:?} cells={} used={}", r.start(), r.end(), n, used) }
}

fn sig_bounds(s: &mut Sig, a: Option<(u32, u32)>, b: Option<(u32, u32)>, size: (usize, usize)) {
    for p in [a, b] {
        match p {
            None => s.u(u64::MAX),
            Some((r, c)) => s.u(((r as u64) << 32) | c as u64),
        }
    }
    s.u(size.0 as u64);
    s.u(size.1 as u64);
}

fn canon_dims(v: &[Dimensions]) -> Canon {
    let mut s = Sig::new();
    for d in v {
        s.u(((d.start.0 as u64) << 32) | d.start.1 as u64);
        s.u(((d.end.0 as u64) << 32) | d.end.1 as u64);
    }
    s.u(v.len() as u64);
    Canon { h: s.0, brief: format!("{} regions", v.len()) }
}

fn canon_debug<T: std::fmt::Debug>(what: &str, v: &T) -> Canon {
    let t = format!("{:?}", v);
    let mut s = Sig::new();
    s.s(&t);
    Canon { h: s.0, brief: format!("{} {}", what, clip(&t, 100)) }
}

// ------------------------------------------------------------------------------------------
// opening
// ------------------------------------------------------------------------------------------

fn err_auto(e: calamine::Error) -> String {
    // strip the wrapper so that results compare equal to the format's own reader
    match e {
        calamine::Error::Xls(e) => format!("{:?}", e),
        calamine::Error::Xlsx(e) => format!("{:?}", e),
        calamine::Error::Xlsb(e) => format!("{:?}", e),
        calamine::Error::Ods(e) => format!("{:?}", e),
        e => format!("{:?}", e),
    }
}

pub fn open(entry: Entry, mut disk: SimDisk, image_len: usize, open_header: Option<u32>) -> Result<Wb, String> {
    match entry {
        Entry::Xls if open_header.is_some() => {
            let mut o = calamine::XlsOptions::default();
            o.header_row = HeaderRow::Row(open_header.unwrap());
            Xls::new_with_options(disk, o).map(Wb::Xls).map_err(|e| format!("{:?}", e))
        }
        Entry::Xls => Xls::new(disk).map(Wb::Xls).map_err(|e| format!("{:?}", e)),
        Entry::Xlsx => Xlsx::new(disk).map(Wb::Xlsx).map_err(|e| format!("{:?}", e)),
        Entry::Xlsb => Xlsb::new(disk).map(Wb::Xlsb).map_err(|e| format!("{:?}", e)),
        Entry::Ods => Ods::new(disk).map(Wb::Ods).map_err(|e| format!("{:?}", e)),
        Entry::Auto => open_workbook_auto_from_rs(disk).map(Wb::Auto).map_err(err_auto),
        Entry::Vba => VbaProject::new(&mut disk, image_len).map(Wb::Vba).map_err(|e| format!("{:?}", e)),
    }
}

/// `open` under `catch_unwind`.
pub fn open_guarded(entry: Entry, disk: SimDisk, image_len: usize, open_header: Option<u32>) -> Result<Wb, Outcome> {
    let _ = guard::take_panic();
    match catch_unwind(AssertUnwindSafe(|| open(entry, disk, image_len, open_header))) {
        Ok(Ok(wb)) => Ok(wb),
        Ok(Err(e)) => Err(Outcome::Err(e)),
        Err(_) => Err(Outcome::Panic(guard::take_panic().unwrap_or_default())),
    }
}

macro_rules! each_reader {
    ($self:expr, $w:ident => $body:expr, vba => $vba:expr) => {
        match $self {
            Wb::Xls($w) => $body,
            Wb::Xlsx($w) => $body,
            Wb::Xlsb($w) => $body,
            Wb::Ods($w) => $body,
            Wb::Auto($w) => $body,
            Wb::Vba(_) => $vba,
        }
    };
}

fn dbg<E: std::fmt::Debug>(e: E) -> String {
    format!("{:?}", e)
}

pub struct VbaSummary {
    pub text: String,
}

fn summarize_vba(v: &VbaProject) -> Canon {
    let mut s = Sig::new();
    let names: Vec<String> = v.get_module_names().into_iter().map(|x| x.to_string()).collect();
    for n in &names {
        s.s(n);
        match v.get_module_raw(n) {
            Ok(b) => s.b(b),
            Err(e) => s.s(&dbg(e)),
        }
        match v.get_module(n) {
            Ok(t) => s.s(&t),
            Err(e) => s.s(&dbg(e)),
        }
    }
    // never `is_missing()`: it reads the real file system
    for r in v.get_references() {
        s.s(&r.name);
        s.s(&r.description);
        s.s(&r.path.to_string_lossy());
    }
    let _ = v.get_module_raw("\u{1}no such module");
    Canon { h: s.0, brief: format!("vba modules={:?} refs={}", names, v.get_references().len()) }
}

/// A borrowed range converted cell by cell into an owned one with exactly the same rectangle.
pub fn own_range(r: Range<DataRef<'_>>) -> Range<Data> {
    match (r.start(), r.end()) {
        (Some(s), Some(e)) => {
            let mut out = Range::new(s, e);
            for (i, j, v) in r.cells() {
                let d: Data = conv(v);
                if d != Data::Empty {
                    out.set_value((s.0 + i as u32, s.1 + j as u32), d);
                }
            }
            out
        }
        _ => Range::empty(),
    }
}

impl Wb {
    pub fn kind(&self) -> &'static str {
        match self {
            Wb::Xls(_) => "xls",
            Wb::Xlsx(_) => "xlsx",
            Wb::Xlsb(_) => "xlsb",
            Wb::Ods(_) => "ods",
            Wb::Auto(Sheets::Xls(_)) => "auto:xls",
            Wb::Auto(Sheets::Xlsx(_)) => "auto:xlsx",
            Wb::Auto(Sheets::Xlsb(_)) => "auto:xlsb",
            Wb::Auto(Sheets::Ods(_)) => "auto:ods",
            Wb::Vba(_) => "vba",
        }
    }
    /// The underlying format, seeing through auto-detection.
    pub fn format(&self) -> Option<Format> {
        Some(match self {
            Wb::Xls(_) | Wb::Auto(Sheets::Xls(_)) => Format::Xls,
            Wb::Xlsx(_) | Wb::Auto(Sheets::Xlsx(_)) => Format::Xlsx,
            Wb::Xlsb(_) | Wb::Auto(Sheets::Xlsb(_)) => Format::Xlsb,
            Wb::Ods(_) | Wb::Auto(Sheets::Ods(_)) => Format::Ods,
            Wb::Vba(_) => return None,
        })
    }
    pub fn sheet_names(&self) -> Vec<String> {
        each_reader!(self, w => w.sheet_names(), vba => vec![])
    }
    pub fn set_header(&mut self, h: Option<u32>) {
        let hr = match h {
            None => HeaderRow::FirstNonEmptyRow,
            Some(n) => HeaderRow::Row(n),
        };
        each_reader!(self, w => { w.with_header_row(hr); }, vba => ())
    }
    pub fn range(&mut self, name: &str) -> Result<Range<Data>, String> {
        match self {
            Wb::Xls(w) => w.worksheet_range(name).map_err(dbg),
            Wb::Xlsx(w) => w.worksheet_range(name).map_err(dbg),
            Wb::Xlsb(w) => w.worksheet_range(name).map_err(dbg),
            Wb::Ods(w) => w.worksheet_range(name).map_err(dbg),
            Wb::Auto(w) => w.worksheet_range(name).map_err(err_auto),
            Wb::Vba(_) => Err("vba".into()),
        }
    }
    /// `worksheet_range_ref`, converted cell by cell into an owned range; `None` where the
    /// format documents it as unsupported.
    pub fn range_ref_owned(&mut self, name: &str) -> Option<Result<Range<Data>, String>> {
        match self {
            Wb::Xlsx(w) => Some(w.worksheet_range_ref(name).map(own_range).map_err(dbg)),
            Wb::Xlsb(w) => Some(w.worksheet_range_ref(name).map(own_range).map_err(dbg)),
            // `Sheets` implements `ReaderRef` for every format it wraps (the eager formats' own
            // readers do not): through the wrapper the call is made for all four
            Wb::Auto(w) => Some(w.worksheet_range_ref(name).map(own_range).map_err(err_auto)),
            _ => None,
        }
    }

    pub fn exec(&mut self, op: &Op, st: &mut ExecState) -> Outcome {
        let _ = guard::take_panic();
        let r = catch_unwind(AssertUnwindSafe(|| self.exec_inner(op, st)));
        match r {
            Ok(o) => o,
            Err(_) => Outcome::Panic(guard::take_panic().unwrap_or_default()),
        }
    }

    fn resolve(&self, a: &SheetArg) -> String {
        match a {
            SheetArg::Lit(s) => s.clone(),
            SheetArg::Idx(k) => self.sheet_names().get(*k).cloned().unwrap_or_else(|| format!("\u{1}no-such-sheet-{}", k)),
        }
    }

    fn resolve_table(&self, a: &SheetArg) -> String {
        match a {
            SheetArg::Lit(s) => s.clone(),
            SheetArg::Idx(k) => {
                let names: Vec<String> = match self {
                    Wb::Xlsx(w) | Wb::Auto(Sheets::Xlsx(w)) => w.table_names().into_iter().cloned().collect(),
                    _ => vec![],
                };
                names.get(*k).cloned().unwrap_or_else(|| format!("\u{1}no-such-table-{}", k))
            }
        }
    }

    fn exec_inner(&mut self, op: &Op, st: &mut ExecState) -> Outcome {
        if let Wb::Vba(v) = self {
            return match op {
                Op::Vba => Outcome::Ok(summarize_vba(v)),
                _ => Outcome::Skipped("vba entry"),
            };
        }
        match op {
            Op::SetHeader(h) => {
                self.set_header(*h);
                st.header = *h;
                Outcome::Ok(Canon { h: 0, brief: "()".into() })
            }
            Op::Sweep => Outcome::Skipped("sweep marker (expanded by the runner)"),
            Op::OpenWith(_) => Outcome::Skipped("construction-time option (applied by the runner)"),
            Op::Range(a) => {
                let n = self.resolve(a);
                match self.range(&n) {
                    Ok(r) => {
                        let c = canon_range_data(&r);
                        if st.capture {
                            st.last_range = Some(r);
                        }
                        Outcome::Ok(c)
                    }
                    Err(e) => Outcome::Err(e),
                }
            }
            Op::RangeRef(a) if st.capture => {
                let n = self.resolve(a);
                match self.range_ref_owned(&n) {
                    None => Outcome::Skipped("range_ref unsupported for eager formats"),
                    Some(Ok(r)) => {
                        let c = canon_range_data(&r);
                        st.last_range = Some(r);
                        Outcome::Ok(c)
                    }
                    Some(Err(e)) => Outcome::Err(e),
                }
            }
            Op::RangeRef(a) => {
                let n = self.resolve(a);
                match self {
                    Wb::Xlsx(w) => match w.worksheet_range_ref(&n) {
                        Ok(r) => Outcome::Ok(canon_range_ref(&r)),
                        Err(e) => Outcome::Err(dbg(e)),
                    },
                    Wb::Xlsb(w) => match w.worksheet_range_ref(&n) {
                        Ok(r) => Outcome::Ok(canon_range_ref(&r)),
                        Err(e) => Outcome::Err(dbg(e)),
                    },
                    Wb::Auto(w) => match w.worksheet_range_ref(&n) {
                        Ok(r) => Outcome::Ok(canon_range_ref(&r)),
                        Err(e) => Outcome::Err(err_auto(e)),
                    },
                    _ => Outcome::Skipped("range_ref unsupported for eager formats"),
                }
            }
            Op::RangeAt(k) => {
                let r = match self {
                    Wb::Xls(w) => w.worksheet_range_at(*k).map(|r| r.map_err(dbg)),
                    Wb::Xlsx(w) => w.worksheet_range_at(*k).map(|r| r.map_err(dbg)),
                    Wb::Xlsb(w) => w.worksheet_range_at(*k).map(|r| r.map_err(dbg)),
                    Wb::Ods(w) => w.worksheet_range_at(*k).map(|r| r.map_err(dbg)),
                    Wb::Auto(w) => w.worksheet_range_at(*k).map(|r| r.map_err(err_auto)),
                    Wb::Vba(_) => unreachable!(),
                };
                match r {
                    None => Outcome::Absent,
                    Some(Ok(r)) => {
                        let c = canon_range_data(&r);
                        if st.capture {
                            st.last_range = Some(r);
                        }
                        Outcome::Ok(c)
                    }
                    Some(Err(e)) => Outcome::Err(e),
                }
            }
            Op::RangeAtRef(k) if st.capture => {
                let r: Option<Result<Range<Data>, String>> = match self {
                    Wb::Xlsx(w) => w.worksheet_range_at_ref(*k).map(|r| r.map(own_range).map_err(dbg)),
                    Wb::Xlsb(w) => w.worksheet_range_at_ref(*k).map(|r| r.map(own_range).map_err(dbg)),
                    Wb::Auto(w @ Sheets::Xlsx(_)) | Wb::Auto(w @ Sheets::Xlsb(_)) => w.worksheet_range_at_ref(*k).map(|r| r.map(own_range).map_err(err_auto)),
                    _ => return Outcome::Skipped("range_at_ref unsupported for eager formats"),
                };
                match r {
                    None => Outcome::Absent,
                    Some(Ok(r)) => {
                        let c = canon_range_data(&r);
                        st.last_range = Some(r);
                        Outcome::Ok(c)
                    }
                    Some(Err(e)) => Outcome::Err(e),
                }
            }
            Op::RangeAtRef(k) => match self {
                Wb::Xlsx(w) => match w.worksheet_range_at_ref(*k) {
                    None => Outcome::Absent,
                    Some(Ok(r)) => Outcome::Ok(canon_range_ref(&r)),
                    Some(Err(e)) => Outcome::Err(dbg(e)),
                },
                Wb::Xlsb(w) => match w.worksheet_range_at_ref(*k) {
                    None => Outcome::Absent,
                    Some(Ok(r)) => Outcome::Ok(canon_range_ref(&r)),
                    Some(Err(e)) => Outcome::Err(dbg(e)),
                },
                Wb::Auto(w) => match w.worksheet_range_at_ref(*k) {
                    None => Outcome::Absent,
                    Some(Ok(r)) => Outcome::Ok(canon_range_ref(&r)),
                    Some(Err(e)) => Outcome::Err(err_auto(e)),
                },
                _ => Outcome::Skipped("range_at_ref unsupported for eager formats"),
            },
            Op::Worksheets => {
                let v = each_reader!(self, w => w.worksheets(), vba => vec![]);
                let mut s = Sig::new();
                let mut names = Vec::new();
                for (n, r) in &v {
                    s.s(n);
                    s.u(canon_range_data(r).h);
                    names.push(n.clone());
                }
                st.last_worksheets = v.iter().map(|(n, r)| (n.clone(), canon_range_data(r).h)).collect();
                Outcome::Ok(Canon { h: s.0, brief: format!("worksheets {:?}", names) })
            }
            Op::Formula(a) => {
                let n = self.resolve(a);
                let r = match self {
                    Wb::Xls(w) => w.worksheet_formula(&n).map_err(dbg),
                    Wb::Xlsx(w) => w.worksheet_formula(&n).map_err(dbg),
                    Wb::Xlsb(w) => w.worksheet_formula(&n).map_err(dbg),
                    Wb::Ods(w) => w.worksheet_formula(&n).map_err(dbg),
                    Wb::Auto(w) => w.worksheet_formula(&n).map_err(err_auto),
                    Wb::Vba(_) => unreachable!(),
                };
                match r {
                    Ok(r) => Outcome::Ok(canon_range_str(&r)),
                    Err(e) => Outcome::Err(e),
                }
            }
            Op::MergeCells(a) => {
                let n = self.resolve(a);
                match self {
                    Wb::Xlsx(w) | Wb::Auto(Sheets::Xlsx(w)) => match w.worksheet_merge_cells(&n) {
                        None => Outcome::Absent,
                        Some(Ok(v)) => Outcome::Ok(canon_dims(&v)),
                        Some(Err(e)) => Outcome::Err(dbg(e)),
                    },
                    Wb::Xls(w) | Wb::Auto(Sheets::Xls(w)) => match w.worksheet_merge_cells(&n) {
                        None => Outcome::Absent,
                        Some(v) => Outcome::Ok(canon_dims(&v)),
                    },
                    _ => Outcome::Skipped("merge cells: xlsx/xls only"),
                }
            }
            Op::MergeCellsAt(k) => match self {
                Wb::Xlsx(w) | Wb::Auto(Sheets::Xlsx(w)) => match w.worksheet_merge_cells_at(*k) {
                    None => Outcome::Absent,
                    Some(Ok(v)) => Outcome::Ok(canon_dims(&v)),
                    Some(Err(e)) => Outcome::Err(dbg(e)),
                },
                Wb::Xls(w) | Wb::Auto(Sheets::Xls(w)) => match w.worksheet_merge_cells_at(*k) {
                    None => Outcome::Absent,
                    Some(v) => Outcome::Ok(canon_dims(&v)),
                },
                _ => Outcome::Skipped("merge cells: xlsx/xls only"),
            },
            Op::LoadMerged => match self {
                Wb::Xlsx(w) | Wb::Auto(Sheets::Xlsx(w)) => match w.load_merged_regions() {
                    Ok(()) => {
                        st.merged_loaded = true;
                        Outcome::Ok(Canon { h: 0, brief: "()".into() })
                    }
                    Err(e) => Outcome::Err(dbg(e)),
                },
                _ => Outcome::Skipped("xlsx only"),
            },
            Op::MergedAll => match self {
                Wb::Xlsx(w) | Wb::Auto(Sheets::Xlsx(w)) => {
                    if !st.merged_loaded {
                        return Outcome::Skipped("documented precondition: load_merged_regions first");
                    }
                    Outcome::Ok(canon_debug("merged", w.merged_regions()))
                }
                _ => Outcome::Skipped("xlsx only"),
            },
            Op::MergedBySheet(a) => {
                let n = self.resolve(a);
                match self {
                    Wb::Xlsx(w) | Wb::Auto(Sheets::Xlsx(w)) => {
                        if !st.merged_loaded {
                            return Outcome::Skipped("documented precondition: load_merged_regions first");
                        }
                        Outcome::Ok(canon_debug("merged_by_sheet", &w.merged_regions_by_sheet(&n)))
                    }
                    _ => Outcome::Skipped("xlsx only"),
                }
            }
            Op::LoadTables => match self {
                Wb::Xlsx(w) | Wb::Auto(Sheets::Xlsx(w)) => match w.load_tables() {
                    Ok(()) => {
                        st.tables_loaded = true;
                        Outcome::Ok(Canon { h: 0, brief: "()".into() })
                    }
                    Err(e) => Outcome::Err(dbg(e)),
                },
                _ => Outcome::Skipped("xlsx only"),
            },
            Op::TableNames => match self {
                Wb::Xlsx(w) | Wb::Auto(Sheets::Xlsx(w)) => {
                    if !st.tables_loaded {
                        return Outcome::Skipped("documented precondition: load_tables first");
                    }
                    Outcome::Ok(canon_debug("tables", &w.table_names()))
                }
                _ => Outcome::Skipped("xlsx only"),
            },
            Op::TableNamesInSheet(a) => {
                let n = self.resolve(a);
                match self {
                    Wb::Xlsx(w) | Wb::Auto(Sheets::Xlsx(w)) => {
                        if !st.tables_loaded {
                            return Outcome::Skipped("documented precondition: load_tables first");
                        }
                        Outcome::Ok(canon_debug("tables_in_sheet", &w.table_names_in_sheet(&n)))
                    }
                    _ => Outcome::Skipped("xlsx only"),
                }
            }
            Op::TableByName(a) | Op::TableByNameRef(a) => {
                if !matches!(self, Wb::Xlsx(_) | Wb::Auto(Sheets::Xlsx(_))) {
                    return Outcome::Skipped("xlsx only");
                }
                if !st.tables_loaded {
                    return Outcome::Skipped("documented precondition: load_tables first");
                }
                let n = self.resolve_table(a);
                let by_ref = matches!(op, Op::TableByNameRef(_));
                match self {
                    Wb::Xlsx(w) | Wb::Auto(Sheets::Xlsx(w)) => {
                        if by_ref {
                            match w.table_by_name_ref(&n) {
                                Ok(t) => {
                                    let mut s = Sig::new();
                                    s.s(t.name());
                                    s.s(t.sheet_name());
                                    for c in t.columns() {
                                        s.s(c)
                                    }
                                    let c = canon_range_ref(t.data());
                                    s.u(c.h);
                                    Outcome::Ok(Canon { h: s.0, brief: format!("table {} on {} {}", t.name(), t.sheet_name(), c.brief) })
                                }
                                Err(e) => Outcome::Err(dbg(e)),
                            }
                        } else {
                            match w.table_by_name(&n) {
                                Ok(t) => {
                                    let mut s = Sig::new();
                                    s.s(t.name());
                                    s.s(t.sheet_name());
                                    for c in t.columns() {
                                        s.s(c)
                                    }
                                    let c = canon_range_data(t.data());
                                    s.u(c.h);
                                    Outcome::Ok(Canon { h: s.0, brief: format!("table {} on {} {}", t.name(), t.sheet_name(), c.brief) })
                                }
                                Err(e) => Outcome::Err(dbg(e)),
                            }
                        }
                    }
                    _ => unreachable!(),
                }
            }
            Op::Vba => {
                let r: Option<Result<Canon, String>> = match self {
                    Wb::Xls(w) => w.vba_project().map(|r| r.map(|v| summarize_vba(&v)).map_err(dbg)),
                    Wb::Xlsx(w) => w.vba_project().map(|r| r.map(|v| summarize_vba(&v)).map_err(dbg)),
                    Wb::Xlsb(w) => w.vba_project().map(|r| r.map(|v| summarize_vba(&v)).map_err(dbg)),
                    Wb::Ods(w) => w.vba_project().map(|r| r.map(|v| summarize_vba(&v)).map_err(dbg)),
                    Wb::Auto(w) => w.vba_project().map(|r| r.map(|v| summarize_vba(&v)).map_err(err_auto)),
                    Wb::Vba(_) => unreachable!(),
                };
                match r {
                    None => Outcome::Absent,
                    Some(Ok(c)) => Outcome::Ok(c),
                    Some(Err(e)) => Outcome::Err(e),
                }
            }
            Op::Meta => {
                let t = each_reader!(self, w => format!("{:?}|{:?}|{:?}", w.sheet_names(), w.sheets_metadata(), w.defined_names()), vba => String::new());
                let mut s = Sig::new();
                s.s(&t);
                Outcome::Ok(Canon { h: s.0, brief: format!("meta {}", clip(&t, 100)) })
            }
        }
    }
}

/// What the driver of a history must remember between calls (documented preconditions and the
/// option in force); deliberately *not* anything about results.
#[derive(Default, Clone)]
pub struct ExecState {
    pub header: Option<u32>,
    pub tables_loaded: bool,
    pub merged_loaded: bool,
    pub last_worksheets: Vec<(String, u64)>,
    /// keep the typed result of Range / RangeRef calls (C08's spec oracle needs the cells)
    pub capture: bool,
    pub last_range: Option<Range<Data>>,
}
