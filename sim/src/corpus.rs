//! The fixture corpus: real workbook files from `/repo/tests` (DESIGN §1.2).

use serde::{Deserialize, Serialize};
use std::sync::Arc;

#[derive(Clone, Copy, Debug, PartialEq, Eq, Hash, Serialize, Deserialize, PartialOrd, Ord)]
pub enum Format {
    Xls,
    Xlsx,
    Xlsb,
    Ods,
}

impl Format {
    pub fn name(self) -> &'static str {
        match self {
            Format::Xls => "xls",
            Format::Xlsx => "xlsx",
            Format::Xlsb => "xlsb",
            Format::Ods => "ods",
        }
    }
    pub fn is_zip(self) -> bool {
        !matches!(self, Format::Xls)
    }
    pub fn is_lazy(self) -> bool {
        matches!(self, Format::Xlsx | Format::Xlsb)
    }
}

#[derive(Clone)]
pub struct Fixture {
    /// file name inside `tests/`
    pub name: String,
    pub format: Format,
    pub bytes: Arc<Vec<u8>>,
}

pub fn repo_root() -> String {
    std::env::var("VERIF_REPO").unwrap_or_else(|_| "/repo".to_string())
}

pub fn format_of(name: &str) -> Option<Format> {
    let ext = name.rsplit('.').next()?;
    Some(match ext {
        "xls" | "xla" => Format::Xls,
        "xlsx" | "xlsm" | "xlam" => Format::Xlsx,
        "xlsb" => Format::Xlsb,
        "ods" => Format::Ods,
        _ => return None,
    })
}

/// All non-empty workbook fixtures, sorted by name (so that index -> file is stable).
pub fn load() -> Result<Vec<Fixture>, String> {
    let dir = format!("{}/tests", repo_root());
    let mut names: Vec<String> = std::fs::read_dir(&dir)
        .map_err(|e| format!("corpus dir {}: {}", dir, e))?
        .filter_map(|e| e.ok())
        .filter_map(|e| e.file_name().into_string().ok())
        .filter(|n| format_of(n).is_some())
        .collect();
    names.sort();
    let mut out = Vec::new();
    for n in names {
        let bytes = std::fs::read(format!("{}/{}", dir, n)).map_err(|e| format!("{}: {}", n, e))?;
        if bytes.is_empty() {
            continue; // emptied fixture (see /root/.vp/EMPTIED_FILES.txt)
        }
        out.push(Fixture { format: format_of(&n).unwrap(), name: n, bytes: Arc::new(bytes) });
    }
    if out.len() < 20 {
        return Err(format!("corpus too small: {} files under {}", out.len(), dir));
    }
    Ok(out)
}

pub fn find<'a>(corpus: &'a [Fixture], name: &str) -> Option<&'a Fixture> {
    corpus.iter().find(|f| f.name == name)
}
