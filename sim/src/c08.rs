//! sim-header (C08): the header-row option selects the first row without altering any cell.
//! Histories of option changes and range reads, over all four formats and auto-detection,
//! under delivery configurations A–C, checked against the property's own functional spec
//! (DESIGN §4.2).

use crate::corpus::Format;
use crate::engine::*;
use crate::guard::erase_numbers;
use crate::prng::{h3, tag, Chooser, Sig};
use crate::runner::{execute, fired_array, ExecOpts, Execution, Limits};
use crate::spec::{RunResult, RunSpec, Violation};
use crate::wb::{Entry, Op, Outcome, SheetArg};
use calamine::{Data, Range};

pub const ID: &str = "C08";

pub fn total_runs(ctx: &mut Ctx) -> u64 {
    let n = ctx.rotation().len() as u64;
    match ctx.tier {
        Tier::Quick => n * 160,
        Tier::Thorough => n * 8000,
    }
}

fn data_eq(a: &Data, b: &Data) -> bool {
    match (a, b) {
        (Data::Float(x), Data::Float(y)) => x.to_bits() == y.to_bits(),
        (Data::DateTime(x), Data::DateTime(y)) => x.as_f64().to_bits() == y.as_f64().to_bits() && format!("{:?}", x) == format!("{:?}", y),
        _ => a == b,
    }
}

fn at<'a>(r: &'a Range<Data>, pos: (u32, u32)) -> &'a Data {
    static EMPTY: Data = Data::Empty;
    r.get_value(pos).unwrap_or(&EMPTY)
}

/// Rows of `d` (absolute) that lie strictly inside its bounding box and hold no value.
pub fn gap_rows(d: &Range<Data>) -> Vec<u32> {
    let (s, _e) = match (d.start(), d.end()) {
        (Some(s), Some(e)) => (s, e),
        _ => return vec![],
    };
    d.rows()
        .enumerate()
        .filter(|(_, row)| row.iter().all(|c| *c == Data::Empty))
        .map(|(i, _)| s.0 + i as u32)
        .collect()
}

/// The property's text as a predicate: `r` was read under `Row(n)`, `d` under the default
/// option.  Returns a stable label and a detail string on violation.
pub fn check_header_spec(d: &Range<Data>, r: &Range<Data>, n: u32) -> Result<(), (&'static str, String)> {
    // is there a non-empty cell of the sheet in a row >= n ?
    let mut has_ge = false;
    if let (Some(ds), Some(_)) = (d.start(), d.end()) {
        for (i, _j, v) in d.used_cells() {
            if ds.0 as u64 + i as u64 >= n as u64 {
                let _ = v;
                has_ge = true;
                break;
            }
        }
    }
    if has_ge {
        match r.start() {
            None => return Err(("C08:empty-but-data-at-or-after-n", format!("n={} default={:?}..{:?} result is empty", n, d.start(), d.end()))),
            Some(s) if s.0 != n => {
                return Err(("C08:start-row", format!("n={} result starts at row {} (default {:?}..{:?})", n, s.0, d.start(), d.end())))
            }
            _ => {}
        }
    } else if !r.is_empty() {
        return Err(("C08:not-empty", format!("n={} no data at or after n, but result is {:?}..{:?}", n, r.start(), r.end())));
    }
    // every position with row >= n holds the same value as under the default option
    if let Some(rs) = r.start() {
        for (i, j, v) in r.cells() {
            let pos = (rs.0 + i as u32, rs.1 + j as u32);
            if pos.0 < n {
                if *v != Data::Empty {
                    return Err(("C08:leak-below-n", format!("n={} value {:?} at {:?}", n, v, pos)));
                }
                continue;
            }
            let dv = at(d, pos);
            if !data_eq(v, dv) {
                return Err(("C08:cell-mismatch", format!("n={} at {:?}: header-row read has {:?}, default read has {:?}", n, pos, v, dv)));
            }
        }
    }
    if let Some(ds) = d.start() {
        for (i, j, v) in d.used_cells() {
            let pos = (ds.0 + i as u32, ds.1 + j as u32);
            if pos.0 < n {
                continue;
            }
            let rv = at(r, pos);
            if !data_eq(v, rv) {
                return Err(("C08:cell-mismatch", format!("n={} at {:?}: default read has {:?}, header-row read has {:?}", n, pos, v, rv)));
            }
        }
    }
    Ok(())
}

fn same_range(a: &Range<Data>, b: &Range<Data>) -> bool {
    a.start() == b.start() && a.end() == b.end() && a.get_size() == b.get_size() && a.cells().zip(b.cells()).all(|(x, y)| data_eq(x.2, y.2))
}

fn candidates(ch: &mut Chooser, d: Option<&Range<Data>>) -> Vec<u32> {
    let mut v = vec![0u32, 1, 1000, u32::MAX - 1, u32::MAX];
    if let Some(d) = d {
        if let (Some(s), Some(e)) = (d.start(), d.end()) {
            v.extend([s.0.saturating_sub(1), s.0, s.0.saturating_add(1), e.0, e.0.saturating_add(1), e.0.saturating_add(1000)]);
            if e.0 > s.0 {
                v.push(s.0 + ch.below((e.0 - s.0) as u64 + 1) as u32);
            }
            let gaps = gap_rows(d);
            for g in gaps.iter().take(3) {
                // gap rows are the interesting interior: give them weight
                v.push(*g);
                v.push(*g);
            }
            if !gaps.is_empty() {
                v.push(*ch.pick(&gaps));
            }
        }
    }
    v
}

pub fn gen(ctx: &mut Ctx, idx: u64) -> (RunSpec, Cfg) {
    let seed = h3(ctx.seed, tag(ID), idx);
    let rot = ctx.rotation();
    let fx = ctx.corpus[rot[(idx % rot.len() as u64) as usize]].clone();
    let mut ch = Chooser::new(seed, "c08");
    let m = ctx.models.get(&fx);
    let entry = if ch.chance(1, 4) { Entry::Auto } else { Entry::own(fx.format) };
    // the `Sheets` wrapper has `worksheet_range_ref` for all four formats
    let ref_ok = fx.format.is_lazy() || entry == Entry::Auto;
    let cfg = match ch.below(10) {
        0..=4 => Cfg::A,
        5..=6 => Cfg::B,
        _ => Cfg::C,
    };
    let delivery = gen_delivery(&mut ch, cfg, fx.bytes.len());
    let names = m.sheet_names.clone();
    let mut ops = Vec::new();
    let len = ch.range(3, 14);
    let nsheets = names.len();
    let mut target = if nsheets > 0 { ch.below(nsheets as u64) as usize } else { 0 };
    for _ in 0..len {
        if nsheets > 0 && ch.chance(1, 4) {
            target = ch.below(nsheets as u64) as usize;
        }
        let d = names.get(target).and_then(|n| m.defaults.get(n)).and_then(|r| r.as_ref().ok());
        match ch.below(100) {
            0..=39 => {
                let c = candidates(&mut ch, d);
                let h = if ch.chance(1, 6) { None } else { Some(*ch.pick(&c)) };
                ops.push(Op::SetHeader(h));
                ops.push(if ref_ok && ch.chance(1, 3) { Op::RangeRef(SheetArg::Idx(target)) } else { Op::Range(SheetArg::Idx(target)) });
            }
            40..=64 => ops.push(Op::Range(SheetArg::Idx(target))),
            65..=71 if ref_ok => ops.push(Op::RangeRef(SheetArg::Idx(target))),
            72..=74 if ref_ok => ops.push(Op::RangeAtRef(target)),
            65..=74 => ops.push(Op::RangeAt(target)),
            75..=78 => ops.push(Op::Formula(SheetArg::Idx(ch.below(nsheets.max(1) as u64) as usize))),
            79..=81 => ops.push(Op::Worksheets),
            82..=83 => ops.push(Op::Meta),
            84..=86 => ops.push(Op::MergeCells(SheetArg::Idx(target))),
            // other APIs that read ranges internally or keep caches: none of them may touch the option
            87..=94 if fx.format == Format::Xlsx => {
                let nt = m.table_names.len() as u64;
                match ch.below(6) {
                    0 => ops.push(Op::LoadTables),
                    1 | 2 => {
                        ops.push(Op::LoadTables);
                        ops.push(Op::TableByName(SheetArg::Idx(ch.below(nt + 1) as usize)));
                    }
                    3 => {
                        ops.push(Op::LoadTables);
                        ops.push(Op::TableByNameRef(SheetArg::Idx(ch.below(nt + 1) as usize)));
                    }
                    4 => {
                        ops.push(Op::LoadMerged);
                        ops.push(Op::MergedAll);
                    }
                    _ => ops.push(Op::Vba),
                }
            }
            87..=94 => ops.push(if ch.chance(1, 2) { Op::Vba } else { Op::RangeAt(target) }),
            _ => {
                // "can be changed back"
                ops.push(Op::SetHeader(None));
                ops.push(Op::Range(SheetArg::Idx(target)));
            }
        }
    }
    // the one reader that takes the option at construction: a third of its histories start there
    if entry == Entry::Xls && nsheets > 0 && ch.chance(1, 3) {
        let d = names.get(target).and_then(|n| m.defaults.get(n)).and_then(|r| r.as_ref().ok());
        let c = candidates(&mut ch, d);
        ops.insert(0, Op::OpenWith(*ch.pick(&c)));
    }
    (
        RunSpec {
            property: ID.into(),
            file: fx.name.clone(),
            inner: None,
            entry,
            stored_faults: vec![],
            delivery,
            ops,
            note: format!("cfg {}", cfg.name()),
        },
        cfg,
    )
}

/// Check one execution against the spec.  Relaxations are per call and narrow (DESIGN §4.1 rule 3).
pub fn check(ctx: &mut Ctx, spec: &RunSpec, ex: &Execution) -> (Vec<Violation>, Vec<String>) {
    let mut viol = Vec::new();
    let mut probes: Vec<String> = Vec::new();
    let fx = match ctx.fixture(&spec.file) {
        Some(f) => f,
        None => return (viol, probes),
    };
    let m = ctx.models.get(&fx);
    let perfect_open = matches!(m.open, Outcome::Ok(_));
    // open
    match &ex.open {
        Outcome::Panic(p) => {
            if !matches!(&m.open, Outcome::Panic(q) if q.origin == p.origin) {
                viol.push(Violation { class: "panic".into(), origin: p.origin.clone(), client: p.client.clone(), msg: erase_numbers(&p.msg), op: 0, detail: "panic while opening".into() });
            }
            return (viol, probes);
        }
        Outcome::Err(e) => {
            // EINTR alone excuses nothing: every read path retries it (8a8dd68)
            let faulted = ex.open_fired.error_faults() > 0;
            if perfect_open && !faulted {
                viol.push(Violation {
                    class: "spec".into(),
                    origin: "C08:open-failed-under-legal-delivery".into(),
                    client: String::new(),
                    msg: e.clone(),
                    op: 0,
                    detail: format!("open succeeds on a perfect disk but failed with only short reads: {}", e),
                });
            }
            return (viol, probes);
        }
        _ => {}
    }
    let want = match spec.entry {
        Entry::Auto => Some(format!("auto:{}", fx.format.name())),
        _ => None,
    };
    if let Some(w) = want {
        if ex.kind != w {
            viol.push(Violation {
                class: "spec".into(),
                origin: "C08:auto-opened-as-other-format".into(),
                client: String::new(),
                msg: format!("{} opened as {}", fx.name, ex.kind),
                op: 0,
                detail: String::new(),
            });
            return (viol, probes);
        }
    }
    for (i, rec) in ex.ops.iter().enumerate() {
        let opi = i as i32 + 1;
        let sheet = match &rec.op {
            Op::Range(SheetArg::Idx(k)) | Op::RangeRef(SheetArg::Idx(k)) | Op::RangeAt(k) | Op::RangeAtRef(k) => m.sheet_names.get(*k).cloned(),
            _ => None,
        };
        if let Outcome::Panic(p) = &rec.outcome {
            // the property: "the call never panics"
            viol.push(Violation {
                class: "panic".into(),
                origin: p.origin.clone(),
                client: p.client.clone(),
                msg: erase_numbers(&p.msg),
                op: opi,
                detail: format!("{:?} under header {:?} on {} ({})", rec.op, rec.header, fx.name, ex.kind),
            });
            break;
        }
        let sheet = match sheet {
            Some(s) => s,
            None => continue,
        };
        let d = match m.defaults.get(&sheet) {
            Some(Ok(d)) => d,
            _ => continue, // the sheet cannot be read under the default option either
        };
        let faulted = rec.fired.error_faults() > 0;
        match (&rec.outcome, &rec.range) {
            (Outcome::Ok(_), Some(r)) => match rec.header {
                None => {
                    if d.start().is_some() && d.rows().next().map_or(false, |row| row.iter().all(|c| *c == Data::Empty)) {
                        viol.push(Violation {
                            class: "spec".into(),
                            origin: "C08:default-first-row-empty".into(),
                            client: String::new(),
                            msg: format!("sheet {:?}", sheet),
                            op: opi,
                            detail: "default option: the first row of the range holds no value".into(),
                        });
                    }
                    if !same_range(r, d) {
                        viol.push(Violation {
                            class: "spec".into(),
                            origin: "C08:default-read-differs".into(),
                            client: String::new(),
                            msg: format!("sheet {:?}", sheet),
                            op: opi,
                            detail: format!("a read under the default option (after option changes) is {:?}..{:?}, a fresh default read is {:?}..{:?}", r.start(), r.end(), d.start(), d.end()),
                        });
                    }
                    if i > 0 {
                        probes.push("changed_back_to_default".into());
                    }
                }
                Some(n) => {
                    if let (Some(s), Some(e)) = (d.start(), d.end()) {
                        if n > e.0 {
                            probes.push("n_beyond_end".into());
                        } else if n < s.0 {
                            probes.push("n_before_start".into());
                        } else if gap_rows(d).contains(&n) {
                            probes.push("n_in_gap_row".into());
                        } else {
                            probes.push("n_inside_data".into());
                        }
                    }
                    if let Err((label, detail)) = check_header_spec(d, r, n) {
                        viol.push(Violation {
                            class: "spec".into(),
                            origin: label.into(),
                            client: String::new(),
                            msg: format!("sheet {:?} header Row({}) via {:?} ({})", sheet, n, rec.op, ex.kind),
                            op: opi,
                            detail,
                        });
                    }
                }
            },
            (Outcome::Err(e), _) => {
                if !faulted && !ex_dead_before(ex, i) {
                    viol.push(Violation {
                        class: "spec".into(),
                        origin: "C08:unexpected-error".into(),
                        client: String::new(),
                        msg: erase_numbers(e),
                        op: opi,
                        detail: format!("{:?} under header {:?}: Err although no fault was injected in this call and the default read succeeds", rec.op, rec.header),
                    });
                } else {
                    probes.push("error_in_faulted_call".into());
                }
            }
            _ => {}
        }
        if viol.len() >= 3 {
            break;
        }
    }
    probes.sort();
    probes.dedup();
    (viol, probes)
}

/// Was the disk already dead (sticky EIO) before call `i`?
pub fn ex_dead_before(ex: &Execution, i: usize) -> bool {
    ex.open_fired.eio_sticky > 0 || ex.ops[..i].iter().any(|r| r.fired.eio_sticky > 0) || ex.ops[i].fired.dead_hits > 0
}

pub fn exec_spec(ctx: &mut Ctx, spec: &RunSpec, idx: u64) -> RunResult {
    let fx = match ctx.fixture(&spec.file) {
        Some(f) => f,
        None => {
            return RunResult { idx, outcome: format!("harness: unknown file {}", spec.file), ..Default::default() };
        }
    };
    let clean = ctx.models.get(&fx).clean_cpu_ns;
    let limits = Limits::for_input(fx.bytes.len(), cpu_budget(clean) * ctx.cpu_scale);
    let ex = execute(fx.bytes.clone(), spec.entry, spec.delivery.clone(), &spec.ops, limits, &ExecOpts { capture: true, stop_on_panic: true, probes: &[], record_kinds: false });
    let (violations, probes) = check(ctx, spec, &ex);
    let mut s = Sig::new();
    s.u(det_hash(&ex));
    for v in &violations {
        s.s(&v.origin);
    }
    let io_calls = ex.ops.iter().filter(|r| r.events > 0).count();
    let deviated = ex.fired.short_reads + ex.fired.eintr + ex.fired.error_faults() > 0;
    let checked_reads = ex.ops.iter().filter(|r| r.range.is_some() && r.header.is_some()).count();
    let nontrivial = match fx.format {
        // lazy formats: at least two I/O-performing calls and a delivery deviation fired
        Format::Xlsx | Format::Xlsb => io_calls >= 2 && deviated && checked_reads >= 1,
        // eager formats do all I/O in `new`: a checked read under an explicit header with a deviation at open
        _ => checked_reads >= 1 && deviated,
    };
    let want_sample = ctx.verbose || !violations.is_empty();
    RunResult {
        idx,
        exec: spec_hash(spec),
        io: ex.io_sig,
        det: s.0,
        nontrivial,
        events: ex.events,
        bytes: ex.bytes,
        ops: ex.ops.len() as u32 + 1,
        fired: fired_array(&ex.fired),
        stored: 0,
        consumed: 0,
        kinds: vec![],
        outcome: format!("{}:{}", fx.format.name(), ex.open.class()),
        probes,
        spec: if want_sample { Some(spec.clone()) } else { None },
        sample: if want_sample { Some(sample_json(spec, &ex)) } else { None },
        violations,
        peak: ex.alloc.peak as u64,
        cpu_us: (ex.cpu_ns / 1000) as u64,
        phase: ("seeded-histories").to_string(),
    }
}

pub fn cpu_budget(clean_ns: i64) -> i64 {
    (clean_ns.saturating_mul(2000)).clamp(3_000_000_000, 60_000_000_000)
}

/// The spec a seeded run finally executes: for configuration C a dry pass (configuration
/// A/B, checked strictly) provides the per-call event counts the error faults are placed with.
pub fn final_spec(ctx: &mut Ctx, idx: u64) -> RunSpec {
    let (mut spec, cfg) = gen(ctx, idx);
    if cfg != Cfg::C {
        return spec;
    }
    let fx = ctx.fixture(&spec.file).unwrap();
    let clean = ctx.models.get(&fx).clean_cpu_ns;
    let limits = Limits::for_input(fx.bytes.len(), cpu_budget(clean) * ctx.cpu_scale);
    let dry = execute(fx.bytes.clone(), spec.entry, spec.delivery.clone(), &spec.ops, limits, &ExecOpts { capture: true, stop_on_panic: true, probes: &[], record_kinds: false });
    let (v, _) = check(ctx, &spec, &dry);
    if !v.is_empty() {
        // the fault-free configuration already violates: report that, strictly
        return spec;
    }
    let seed = h3(ctx.seed, tag(ID), idx);
    let mut ch = Chooser::new(seed, "c08-faults");
    let n = ch.range(1, 3) as usize;
    let prefer = preferred_calls(&spec.ops);
    spec.delivery.faults = place_faults(&mut ch, &dry.op_events, n, &prefer);
    spec
}

pub fn run(ctx: &mut Ctx, idx: u64) -> RunResult {
    let spec = final_spec(ctx, idx);
    exec_spec(ctx, &spec, idx)
}
