//! sim-hostile (C06) — placeholder until the fault generators exist.
use crate::engine::Ctx;
use crate::spec::{RunResult, RunSpec};

pub const ID: &str = "C06";

pub fn total_runs(_ctx: &mut Ctx) -> u64 {
    0
}
pub fn gen(_ctx: &mut Ctx, _idx: u64) -> RunSpec {
    unimplemented!()
}
pub fn run(_ctx: &mut Ctx, idx: u64) -> RunResult {
    RunResult { idx, ..Default::default() }
}
pub fn exec_spec(_ctx: &mut Ctx, _spec: &RunSpec, idx: u64) -> RunResult {
    RunResult { idx, ..Default::default() }
}
