//! sim-hostile (C06): malformed or hostile files yield an error, never a panic, hang or
//! memory blow-up.  A storage-fault campaign against a reader (DESIGN §3): single-fault
//! sweeps over enumerated sites of each fixture, then a seeded multi-fault search with
//! swarm-varied delivery.

use crate::corpus::{Fixture, Format};
use crate::engine::*;
use crate::faultgen::{self, SiteGroup};
use crate::guard::erase_numbers;
use crate::image::{self, Parts};
use crate::prng::{h3, hbytes, tag, Chooser, Sig};
use crate::runner::{execute, fired_array, ExecOpts, Limits};
use crate::simdisk::Delivery;
use crate::spec::{Edit, Layer, RunResult, RunSpec, StoredFault, Violation};
use crate::wb::{Entry, Op, Outcome};
use std::sync::Arc;

pub const ID: &str = "C06";

/// The quick sweep covers a fixed set of small fixtures: all four formats, VBA (xlsm and xls),
/// tables, merged regions, annotations, repeated rows, rich text, BIFF5, a password file, CONTINUE records, defined names / formulas / VBA in xls, formula records in xlsb.
const QUICK_SWEEP: [&str; 19] = [
    "any_sheets.xls",
    "any_sheets.xlsx",
    "any_sheets.xlsb",
    "any_sheets.ods",
    "vba.xlsm",
    "issue281.xlsm",
    "merge_cells.xls",
    "biff5_write.xls",
    "temperature-table.xlsx",
    "merged_range.xlsx",
    "date.xlsb",
    "with-annotation.ods",
    "number_rows_repeated.ods",
    "pass_protected.xlsx",
    "picture.xls",
    "issues.xls",
    "issues.xlsb",
    "issue_391.xlsx",
    "special_cells.ods",
];

pub struct Layout {
    /// (fixture index in corpus, first run index, number of runs)
    pub blocks: Vec<(usize, u64, u64)>,
    pub sweep_total: u64,
    pub seeded: u64,
}

fn sweep_fixtures(ctx: &Ctx) -> Vec<usize> {
    match ctx.tier {
        Tier::Quick => QUICK_SWEEP.iter().filter_map(|n| ctx.corpus.iter().position(|f| f.name == *n)).collect(),
        Tier::Thorough => (0..ctx.corpus.len()).collect(),
    }
}

pub fn sites_of(ctx: &mut Ctx, fi: usize) -> Arc<Vec<SiteGroup>> {
    let fx = ctx.corpus[fi].clone();
    if let Some(s) = ctx.sites.get(&fx.name) {
        return s.clone();
    }
    let tier = ctx.tier;
    let parts = ctx.parts.entry(fx.name.clone()).or_insert_with(|| Parts::new(&fx.bytes));
    let s = Arc::new(faultgen::sites(&fx, parts, tier));
    ctx.sites.insert(fx.name.clone(), s.clone());
    s
}

pub fn layout(ctx: &mut Ctx) -> Arc<Layout> {
    if let Some(l) = &ctx.c06_layout {
        return l.clone();
    }
    let mut blocks = Vec::new();
    let mut at = 0u64;
    for fi in sweep_fixtures(ctx) {
        let n = sites_of(ctx, fi).len() as u64 * 2;
        blocks.push((fi, at, n));
        at += n;
    }
    let seeded = match ctx.tier {
        Tier::Quick => 60_000,
        Tier::Thorough => 4_000_000,
    };
    let l = Arc::new(Layout { blocks, sweep_total: at, seeded });
    ctx.c06_layout = Some(l.clone());
    l
}

pub fn total_runs(ctx: &mut Ctx) -> u64 {
    let l = layout(ctx);
    l.sweep_total + l.seeded
}

fn alt_entry(fx: &Fixture, inner: bool, h: u64) -> Entry {
    if inner {
        return Entry::Auto;
    }
    let own = Entry::own(fx.format);
    let mut pool = vec![Entry::Auto, Entry::Auto, Entry::Xls, Entry::Xlsx, Entry::Xlsb, Entry::Ods];
    if fx.format == Format::Xls {
        pool.push(Entry::Vba);
        pool.push(Entry::Vba);
    }
    pool.retain(|e| *e != own);
    pool[(h % pool.len() as u64) as usize]
}

fn random_raw(ch: &mut Chooser, len: usize) -> StoredFault {
    let len = len.max(1);
    let off = ch.below(len as u64) as usize;
    match ch.below(6) {
        0 => StoredFault { layer: Layer::Raw, edit: Some(Edit::Trunc { len: off }), why: format!("raw:truncate at {} of {}", off, len) },
        1 => {
            let n = ch.range(1, 8) as usize;
            let bytes: Vec<u8> = (0..n).map(|_| ch.next() as u8).collect();
            StoredFault { layer: Layer::Raw, edit: Some(Edit::Set { off, bytes }), why: format!("raw:random-bytes {} bytes at {}", n, off) }
        }
        2 => StoredFault { layer: Layer::Raw, edit: Some(Edit::Set { off: off & !511, bytes: vec![0; 512] }), why: format!("raw:sector-zero sector at {} (lost write)", off & !511) },
        3 => StoredFault { layer: Layer::Raw, edit: Some(Edit::Delete { off, len: ch.range(1, 600) as usize }), why: format!("raw:delete bytes at {}", off) },
        4 => StoredFault { layer: Layer::Raw, edit: Some(Edit::Set { off, bytes: vec![0xFF; 4] }), why: format!("raw:ff-dword at {}", off) },
        _ => StoredFault { layer: Layer::Raw, edit: Some(Edit::Set { off, bytes: vec![ch.next() as u8] }), why: format!("raw:random-byte at {}", off) },
    }
}

/// The calls made on an amplified input (each call re-parses the part, so the whole API sweep
/// would multiply a legitimately long parse by sixty).
pub fn light_ops() -> Vec<Op> {
    use crate::wb::SheetArg;
    let mut v = vec![Op::Meta];
    for i in 0..4 {
        v.push(Op::Range(SheetArg::Idx(i)));
        v.push(Op::Formula(SheetArg::Idx(i)));
        v.push(Op::MergeCells(SheetArg::Idx(i)));
    }
    v.push(Op::LoadMerged);
    v.push(Op::Worksheets);
    v.push(Op::LoadTables);
    v.push(Op::Vba);
    v
}

pub fn gen(ctx: &mut Ctx, idx: u64) -> RunSpec {
    let l = layout(ctx);
    if idx < l.sweep_total {
        // ---- sweep: one enumerated site, full-length delivery, two entries ----
        let b = l.blocks.iter().find(|b| idx >= b.1 && idx < b.1 + b.2).copied().unwrap();
        let fx = ctx.corpus[b.0].clone();
        let sites = sites_of(ctx, b.0);
        let k = idx - b.1;
        let g = &sites[(k / 2) as usize];
        let entry = if k % 2 == 0 {
            if g.inner.is_some() {
                Entry::Vba
            } else {
                Entry::own(fx.format)
            }
        } else {
            alt_entry(&fx, g.inner.is_some(), hbytes(format!("{}#{}", fx.name, k).as_bytes()))
        };
        return RunSpec {
            property: ID.into(),
            file: fx.name.clone(),
            inner: g.inner.clone(),
            entry,
            stored_faults: g.faults.clone(),
            delivery: Delivery::perfect(),
            ops: if g.light { light_ops() } else { vec![Op::Sweep] },
            note: if g.scaling { format!("scaling: site {} of {} at 1/4, 1/2 and 1/1 of its generated items", k / 2, sites.len()) } else { format!("sweep site {} of {}", k / 2, sites.len()) },
        };
    }
    // ---- seeded multi-fault search ----
    let j = idx - l.sweep_total;
    let seed = h3(ctx.seed, tag(ID), j);
    let mut ch = Chooser::new(seed, "c06");
    let fi = ch.below(ctx.corpus.len() as u64) as usize;
    let fx = ctx.corpus[fi].clone();
    let sites = sites_of(ctx, fi);
    let nf = match ch.below(10) {
        0..=3 => 1,
        4..=6 => 2,
        7..=8 => 3,
        _ => 4,
    };
    let mut inner: Option<String> = None;
    let mut faults: Vec<StoredFault> = Vec::new();
    for k in 0..nf {
        if !sites.is_empty() && ch.chance(7, 10) {
            let g = &sites[ch.below(sites.len() as u64) as usize];
            if g.light {
                faults.push(random_raw(&mut ch, fx.bytes.len()));
                continue;
            }
            if k == 0 {
                inner = g.inner.clone();
            }
            if g.inner != inner {
                continue;
            }
            faults.extend(g.faults.iter().cloned());
        } else {
            faults.push(random_raw(&mut ch, fx.bytes.len()));
        }
    }
    if faults.is_empty() {
        faults.push(random_raw(&mut ch, fx.bytes.len()));
    }
    let entry = if inner.is_some() {
        if ch.chance(4, 5) {
            Entry::Vba
        } else {
            Entry::Auto
        }
    } else {
        match ch.below(20) {
            0..=10 => Entry::own(fx.format),
            11..=15 => Entry::Auto,
            _ => alt_entry(&fx, false, ch.next()),
        }
    };
    let delivery = if ch.chance(1, 2) {
        Delivery::perfect()
    } else {
        let cfg = if ch.chance(1, 3) { Cfg::B } else { Cfg::A };
        gen_delivery(&mut ch, cfg, fx.bytes.len())
    };
    RunSpec { property: ID.into(), file: fx.name.clone(), inner, entry, stored_faults: faults, delivery, ops: vec![Op::Sweep], note: format!("seeded #{}", j) }
}

/// Key of a scaling verdict: the description of the flood with its decimal numbers (offsets,
/// counts) erased and its hexadecimal ones (record and token types) kept.
fn erase_decimals(s: &str) -> String {
    let b: Vec<char> = s.chars().collect();
    let mut out = String::with_capacity(s.len());
    let mut i = 0;
    while i < b.len() {
        if b[i] == '0' && i + 1 < b.len() && b[i + 1] == 'x' {
            out.push_str("0x");
            i += 2;
            while i < b.len() && b[i].is_ascii_hexdigit() {
                out.push(b[i]);
                i += 1;
            }
        } else if b[i].is_ascii_digit() {
            out.push('#');
            while i < b.len() && b[i].is_ascii_digit() {
                i += 1;
            }
        } else {
            out.push(b[i]);
            i += 1;
        }
    }
    out
}

/// A scaling run: the same amplified input at growing numbers of generated items, in one
/// process.  The input is first run as the site defines it, then with 2, 4 and 8 times its
/// generated items for as long as a run stays below one second of CPU (and 48 MB of generated
/// bytes), so that a term that grows faster than linearly has room to dominate; the largest
/// size reached is then compared with a quarter of it.  "Time proportional to the input" means
/// a ratio of about 4; 16 is quadratic.  The verdict needs a measurable large run (>= 100 ms of
/// CPU) and a ratio above 10 (honest code reaches 8.4 on this corpus); the driver confirms it by
/// two more isolated executions.  A budget verdict at one of the sizes is reported as it is,
/// with the scaled input as its replay.
fn exec_scaling(ctx: &mut Ctx, spec: &RunSpec, idx: u64) -> RunResult {
    let scaled = |num: u32, den: u32| -> RunSpec {
        let mut s = spec.clone();
        s.note = format!("scaled x{}/{}", num, den);
        let mut items = 0u64;
        for f in s.stored_faults.iter_mut() {
            if let Some(Edit::Repeat { count, start, step, .. }) = f.edit.as_mut() {
                if *count >= 8000 {
                    let n = ((*count as u64 * num as u64) / den as u64).min(u32::MAX as u64) as u32;
                    // descending counters start at the number of items
                    if *step < 0 && *start == *count as i64 {
                        *start = n as i64;
                    }
                    *count = n;
                    items = n as u64;
                }
            }
        }
        // fields that depend on the length of the flood (`base=<value> per=<bytes per item>` in
        // the description: sheet positions behind a flood in the workbook globals)
        for f in s.stored_faults.iter_mut() {
            let field = |key: &str| f.why.split(key).nth(1).and_then(|t| t.split(' ').next()).and_then(|t| t.parse::<u64>().ok());
            if let (Some(base), Some(per)) = (field(" base="), field(" per=")) {
                if let Some(Edit::Set { bytes, .. }) = f.edit.as_mut() {
                    *bytes = ((base + items * per) as u32).to_le_bytes().to_vec();
                }
            }
        }
        s
    };
    let generated = |s: &RunSpec| -> usize { s.stored_faults.iter().filter_map(|f| f.edit.as_ref()).map(|e| e.generated()).sum() };
    // an input that is refused after the work was done is a measurement too
    let measurable = |r: &RunResult| r.violations.is_empty() && !r.outcome.starts_with("harness");
    // the size the site defines, and a quarter of it (growing the input may change its nature —
    // 16-bit row counters wrap, declared limits are passed — so this pair is always judged too)
    let mut mult = 1u32;
    let mut large = exec_spec(ctx, &scaled(1, 1), idx);
    if !measurable(&large) {
        return large;
    }
    let base_pair = {
        let q = exec_spec(ctx, &scaled(1, 4), idx);
        if measurable(&q) { Some(((q.cpu_us as i64).max(1000), large.cpu_us as i64)) } else { None }
    };
    // grow
    while (large.cpu_us as i64) < 1_000_000 && mult < 8 && generated(&scaled(mult * 2, 1)) <= 48 << 20 {
        let s = scaled(mult * 2, 1);
        let r = exec_spec(ctx, &s, idx);
        if !r.violations.is_empty() {
            // a budget verdict at this size: the scaled input is the replay
            let mut r = r;
            r.spec = Some(s);
            r.phase = "scaling".into();
            return r;
        }
        if !measurable(&r) {
            break;
        }
        mult *= 2;
        large = r;
    }
    large.phase = "scaling".into();
    let grown_pair = if mult > 1 {
        let small = exec_spec(ctx, &scaled(mult, 4), idx);
        if measurable(&small) { Some(((small.cpu_us as i64).max(1000), large.cpu_us as i64)) } else { None }
    } else {
        None
    };
    // the pair with the larger ratio among the measurable ones (>= 100 ms at the larger size)
    let mut best: Option<(i64, i64, u32)> = None;
    for (pair, m) in [(base_pair, 1u32), (grown_pair, mult)] {
        if let Some((a, b)) = pair {
            if b >= 100_000 && best.map_or(true, |(x, y, _)| (b as f64 / a as f64) > (y as f64 / x as f64)) {
                best = Some((a, b, m));
            }
        }
    }
    let (t1, t4, mult) = match best {
        Some(x) => x,
        None => {
            large.probes.push("scaling_largest_size_below_100ms".to_string());
            return large;
        }
    };
    let ratio = t4 as f64 / t1 as f64;
    let kind = spec.stored_faults.iter().rev().find(|f| matches!(&f.edit, Some(Edit::Repeat { count, .. }) if *count >= 8000)).map(|f| erase_decimals(&f.why)).unwrap_or_default();
    // how the ratios are distributed is part of the evidence (rare-condition probes)
    large.probes.push(if t4 >= 100_000 { format!("scaling_ratio_{:02}", (ratio as u64).min(20)) } else { "scaling_largest_size_below_100ms".to_string() });
    if t4 >= 100_000 && ratio >= 6.0 {
        // the upper tail of the distribution, by flood and file (to see how close honest code comes)
        large.probes.push(format!("scaling_tail:{:.1}:{}:{}:x{}:{}us,{}us", ratio, spec.file, kind, mult, t1, t4));
    }
    if t4 >= 100_000 && ratio > 10.0 {
        large.violations.push(Violation {
            class: "superlinear".into(),
            origin: kind,
            client: String::new(),
            msg: "CPU time grows faster than the input".into(),
            op: -1,
            detail: format!("CPU time with {}/4 and {} times the generated items of the site: {} us and {} us (ratio {:.1}; 4 is linear, 16 quadratic)", mult, mult, t1, t4, ratio),
        });
        large.spec = Some(spec.clone());
    }
    large
}

pub fn exec_spec(ctx: &mut Ctx, spec: &RunSpec, idx: u64) -> RunResult {
    if spec.note.starts_with("scaling") {
        return exec_scaling(ctx, spec, idx);
    }
    let fx = match crate::corpus::find(&ctx.corpus, &spec.file) {
        Some(f) => f.clone(),
        None => return RunResult { idx, outcome: format!("harness: unknown file {}", spec.file), ..Default::default() },
    };
    let parts = ctx.parts.entry(fx.name.clone()).or_insert_with(|| Parts::new(&fx.bytes));
    // the fault combination may be inapplicable (e.g. a stream fault on a container that an
    // earlier fault of the same run already destroyed): that is a skipped run, not a verdict
    let built = std::panic::catch_unwind(std::panic::AssertUnwindSafe(|| image::build(&fx.bytes, parts, spec.inner.as_deref(), &spec.stored_faults)));
    let _ = crate::guard::take_panic();
    let built = match built.unwrap_or_else(|_| Err("harness panic while building the image".to_string())) {
        Ok(b) => b,
        Err(e) => {
            return RunResult { idx, exec: spec_hash(spec), outcome: format!("harness:image-not-built ({})", e), spec: Some(spec.clone()), ..Default::default() };
        }
    };
    let clean = ctx.clean_ns(&fx);
    let image = Arc::new(built.image);
    // "time proportional to the input": generated items add 0.3 µs of CPU per byte to the budget (a linear parse needs about a tenth of that)
    let generated: usize = spec.stored_faults.iter().filter_map(|f| f.edit.as_ref()).map(|e| e.generated()).sum();
    let extra_ns = if generated > 100_000 { generated as i64 * 300 } else { 0 };
    let mut limits = Limits::for_input(image.len().max(fx.bytes.len()), (crate::c08::cpu_budget(clean) + extra_ns) * ctx.cpu_scale);
    // memory and I/O steps proportional to the *decompressed* size for generated items
    limits.alloc_budget = limits.alloc_budget.saturating_add(generated.saturating_mul(64));
    limits.max_events = limits.max_events.saturating_add(generated as u64 * 4);
    let ex = execute(image.clone(), spec.entry, spec.delivery.clone(), &spec.ops, limits, &ExecOpts { capture: false, stop_on_panic: true, probes: &built.probes, record_kinds: false });
    let mut violations = Vec::new();
    if let Outcome::Panic(p) = &ex.open {
        violations.push(Violation {
            class: "panic".into(),
            origin: p.origin.clone(),
            client: p.client.clone(),
            msg: erase_numbers(&p.msg),
            op: 0,
            detail: format!("{} on {} [{}]", spec.entry.name(), spec.file, spec.stored_faults.iter().map(|f| f.why.as_str()).collect::<Vec<_>>().join("; ")),
        });
    }
    for (i, r) in ex.ops.iter().enumerate() {
        if let Outcome::Panic(p) = &r.outcome {
            violations.push(Violation {
                class: "panic".into(),
                origin: p.origin.clone(),
                client: p.client.clone(),
                msg: erase_numbers(&p.msg),
                op: i as i32 + 1,
                detail: format!("{:?} (header {:?}) on {} opened as {} [{}]", r.op, r.header, spec.file, ex.kind, spec.stored_faults.iter().map(|f| f.why.as_str()).collect::<Vec<_>>().join("; ")),
            });
        }
    }
    if ex.budget_exceeded {
        violations.push(Violation {
            class: "steps".into(),
            origin: "io-step-budget".into(),
            client: String::new(),
            msg: format!("more than 64 x input + 1e5 I/O events"),
            op: -1,
            detail: format!("{} events on an image of {} bytes", ex.events, image.len()),
        });
    }
    let consumed = ex.consumed.iter().filter(|c| **c).count() as u32;
    let mut s = Sig::new();
    s.u(det_hash(&ex));
    for v in &violations {
        s.s(&v.origin);
    }
    let want_sample = ctx.verbose || !violations.is_empty();
    let mut kinds: Vec<String> = spec.stored_faults.iter().map(image::kind_of).collect();
    kinds.sort();
    kinds.dedup();
    let open_class = match &ex.open {
        Outcome::Ok(_) => format!("opened:{}", ex.kind),
        o => format!("open-{}", o.class()),
    };
    RunResult {
        idx,
        exec: spec_hash(spec),
        io: ex.io_sig,
        det: s.0,
        nontrivial: consumed > 0 || ex.fired.error_faults() > 0,
        events: ex.events,
        bytes: ex.bytes,
        ops: ex.ops.len() as u32 + 1,
        fired: fired_array(&ex.fired),
        stored: spec.stored_faults.len() as u32,
        consumed,
        kinds,
        outcome: format!("{}:{}", spec.entry.name(), open_class),
        // an amplified input that the file's own reader refuses exercises less than it claims:
        // which floods are refused is part of the evidence (round 5 found every xls flood refused)
        probes: if generated > 100_000 && spec.entry == Entry::own(fx.format) && spec.inner.is_none() {
            let kind = spec.stored_faults.iter().rev().find(|f| matches!(&f.edit, Some(Edit::Repeat { .. }))).map(|f| erase_decimals(&f.why)).unwrap_or_default();
            match &ex.open {
                Outcome::Ok(_) => vec!["amplified_input_opened".to_string()],
                _ => vec![format!("amplified_input_refused:{}", crate::wb::clip(&kind, 90))],
            }
        } else {
            vec![]
        },
        spec: if want_sample { Some(spec.clone()) } else { None },
        sample: if want_sample { Some(sample_json(spec, &ex)) } else { None },
        violations,
        peak: ex.alloc.peak as u64,
        cpu_us: (ex.cpu_ns / 1000) as u64,
        phase: (if spec.note.starts_with("sweep") { "fault-sweep" } else { "seeded-multi-fault" }).to_string(),
    }
}

pub fn run(ctx: &mut Ctx, idx: u64) -> RunResult {
    let spec = gen(ctx, idx);
    exec_spec(ctx, &spec, idx)
}
