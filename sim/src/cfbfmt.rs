//! Harness-side compound-file (MS-CFB) layout reader and minimal v3 writer (DESIGN §2.3).
//! The reader yields *targeted* fault sites (header fields, DIFAT / FAT / mini-FAT entries,
//! directory entries) as byte offsets into the raw image and the logical streams; the writer
//! rebuilds a valid container around a damaged stream.

pub const FREESECT: u32 = 0xFFFF_FFFF;
pub const ENDOFCHAIN: u32 = 0xFFFF_FFFE;
pub const FATSECT: u32 = 0xFFFF_FFFD;

fn u16le(b: &[u8], o: usize) -> Option<u16> {
    Some(u16::from_le_bytes([*b.get(o)?, *b.get(o + 1)?]))
}
fn u32le(b: &[u8], o: usize) -> Option<u32> {
    Some(u32::from_le_bytes([*b.get(o)?, *b.get(o + 1)?, *b.get(o + 2)?, *b.get(o + 3)?]))
}

#[derive(Clone, Debug)]
pub struct DirEntry {
    pub index: usize,
    /// offset of the 128-byte entry in the raw image
    pub offset: usize,
    pub raw: [u8; 128],
    pub name: String,
    pub typ: u8,
    pub start: u32,
    pub size: u64,
}

#[derive(Clone, Debug, Default)]
pub struct Layout {
    pub ssz: usize,
    pub n_sectors: usize,
    /// sector ids holding the FAT, in order
    pub fat_sectors: Vec<u32>,
    pub fat: Vec<u32>,
    pub dir_chain: Vec<u32>,
    pub minifat_chain: Vec<u32>,
    pub minifat: Vec<u32>,
    pub ministream_chain: Vec<u32>,
    pub dir: Vec<DirEntry>,
    pub difat_in_header: usize,
}

impl Layout {
    pub fn sector_off(&self, id: u32) -> usize {
        (id as usize + 1) * self.ssz
    }
    /// byte offset of FAT entry `i` in the raw image
    pub fn fat_entry_off(&self, i: usize) -> Option<usize> {
        let epf = self.ssz / 4;
        let s = *self.fat_sectors.get(i / epf)?;
        Some(self.sector_off(s) + 4 * (i % epf))
    }
    pub fn minifat_entry_off(&self, i: usize) -> Option<usize> {
        let epf = self.ssz / 4;
        let s = *self.minifat_chain.get(i / epf)?;
        Some(self.sector_off(s) + 4 * (i % epf))
    }
    fn chain(&self, start: u32, limit: usize) -> Vec<u32> {
        let mut v = Vec::new();
        let mut s = start;
        while (s as usize) < self.fat.len() && v.len() < limit {
            v.push(s);
            s = self.fat[s as usize];
        }
        v
    }
    pub fn chain_of(&self, start: u32) -> Vec<u32> {
        self.chain(start, self.n_sectors + 1)
    }
}

pub fn parse(img: &[u8]) -> Option<Layout> {
    if img.len() < 512 || img[..8] != [0xD0, 0xCF, 0x11, 0xE0, 0xA1, 0xB1, 0x1A, 0xE1] {
        return None;
    }
    let shift = u16le(img, 30)?;
    let ssz = match shift {
        9 => 512usize,
        12 => 4096,
        _ => return None,
    };
    let n_sectors = (img.len() + ssz - 1) / ssz - 1;
    let n_fat = u32le(img, 44)? as usize;
    let dir_start = u32le(img, 48)?;
    let minifat_start = u32le(img, 60)?;
    let mut difat_next = u32le(img, 68)?;
    let mut l = Layout { ssz, n_sectors, ..Default::default() };
    let mut difat: Vec<u32> = Vec::new();
    for i in 0..109 {
        let v = u32le(img, 76 + 4 * i)?;
        if v < 0xFFFF_FFFA {
            difat.push(v);
            l.difat_in_header = i + 1;
        }
    }
    let mut guard = 0;
    while difat_next < 0xFFFF_FFFA && guard < 1024 {
        let off = (difat_next as usize + 1) * ssz;
        for i in 0..ssz / 4 - 1 {
            if let Some(v) = u32le(img, off + 4 * i) {
                if v < 0xFFFF_FFFA {
                    difat.push(v);
                }
            }
        }
        difat_next = u32le(img, off + ssz - 4)?;
        guard += 1;
    }
    difat.truncate(n_fat.max(1).min(difat.len()));
    l.fat_sectors = difat.clone();
    for s in &difat {
        let off = (*s as usize + 1) * ssz;
        for i in 0..ssz / 4 {
            l.fat.push(u32le(img, off + 4 * i).unwrap_or(FREESECT));
        }
    }
    l.dir_chain = l.chain(dir_start, n_sectors + 1);
    l.minifat_chain = l.chain(minifat_start, n_sectors + 1);
    for s in l.minifat_chain.clone() {
        let off = l.sector_off(s);
        for i in 0..ssz / 4 {
            l.minifat.push(u32le(img, off + 4 * i).unwrap_or(FREESECT));
        }
    }
    let mut index = 0;
    for s in l.dir_chain.clone() {
        let off = l.sector_off(s);
        for k in 0..ssz / 128 {
            let o = off + 128 * k;
            let raw: [u8; 128] = match img.get(o..o + 128) {
                Some(r) => r.try_into().ok()?,
                None => break,
            };
            let nlen = (u16le(&raw, 64)? as usize).min(64);
            let units: Vec<u16> = raw[..nlen.saturating_sub(2)].chunks_exact(2).map(|c| u16::from_le_bytes([c[0], c[1]])).collect();
            let name = String::from_utf16_lossy(&units);
            let size = if ssz == 512 { u32le(&raw, 120)? as u64 } else { u32le(&raw, 120)? as u64 | ((u32le(&raw, 124)? as u64) << 32) };
            l.dir.push(DirEntry { index, offset: o, raw, name, typ: raw[66], start: u32le(&raw, 116)?, size });
            index += 1;
        }
    }
    if let Some(root) = l.dir.first() {
        l.ministream_chain = l.chain(root.start, n_sectors + 1);
    }
    Some(l)
}

/// Logical content of directory entry `e` (a stream).
pub fn stream_bytes(img: &[u8], l: &Layout, e: &DirEntry) -> Option<Vec<u8>> {
    if e.typ != 2 {
        return None;
    }
    // the directory entry may come from an image an earlier fault of the same run already damaged
    let mut out = Vec::with_capacity((e.size as usize).min(img.len()));
    if e.size < 4096 {
        // mini stream
        let mut container = Vec::new();
        for s in &l.ministream_chain {
            let off = l.sector_off(*s);
            container.extend_from_slice(img.get(off..(off + l.ssz).min(img.len()))?);
        }
        let mut s = e.start;
        let mut n = 0;
        while (s as usize) < l.minifat.len() && n <= l.minifat.len() {
            let off = s as usize * 64;
            out.extend_from_slice(container.get(off..off + 64)?);
            s = l.minifat[s as usize];
            n += 1;
        }
    } else {
        for s in l.chain_of(e.start) {
            let off = l.sector_off(s);
            out.extend_from_slice(img.get(off..(off + l.ssz).min(img.len()))?);
        }
    }
    out.truncate(e.size as usize);
    if out.len() as u64 != e.size {
        return None;
    }
    Some(out)
}

/// Rebuild a valid v3 (512-byte sector) container holding the same directory entries (names,
/// types, tree links) with the given stream contents.  `streams[i]` is the content for
/// directory entry `i` (ignored for storages).  Returns the image and, per directory index,
/// the byte range where that stream's data lives (for the consumed/dormant classification).
pub fn write(dir: &[DirEntry], streams: &[Vec<u8>]) -> (Vec<u8>, Vec<(u64, u64)>) {
    const SSZ: usize = 512;
    let n = dir.len();
    // mini stream container
    let mut mini_container: Vec<u8> = Vec::new();
    let mut minifat: Vec<u32> = Vec::new();
    let mut starts: Vec<u32> = vec![ENDOFCHAIN; n];
    let mut is_mini = vec![false; n];
    for (i, e) in dir.iter().enumerate() {
        if e.typ != 2 {
            continue;
        }
        let d = &streams[i];
        if d.len() < 4096 {
            is_mini[i] = true;
            if d.is_empty() {
                continue;
            }
            let first = minifat.len() as u32;
            let k = (d.len() + 63) / 64;
            for j in 0..k {
                minifat.push(if j + 1 == k { ENDOFCHAIN } else { first + j as u32 + 1 });
            }
            mini_container.extend_from_slice(d);
            mini_container.resize(minifat.len() * 64, 0);
            starts[i] = first;
        }
    }
    let secs = |bytes: usize| (bytes + SSZ - 1) / SSZ;
    let n_dir_secs = secs(n * 128).max(1);
    let n_minifat_secs = secs(minifat.len() * 4);
    let n_mini_secs = secs(mini_container.len());
    let big: Vec<usize> = (0..n).filter(|&i| dir[i].typ == 2 && !is_mini[i]).collect();
    let n_big_secs: usize = big.iter().map(|&i| secs(streams[i].len())).sum();
    let body = n_dir_secs + n_minifat_secs + n_mini_secs + n_big_secs;
    // FAT sectors first, then the DIFAT sectors that list the FAT sectors beyond the 109 of the
    // header, then everything else
    let mut n_fat_secs = 1;
    let mut n_difat_secs = 0;
    loop {
        n_difat_secs = if n_fat_secs > 109 { (n_fat_secs - 109 + 126) / 127 } else { 0 };
        if n_fat_secs * (SSZ / 4) >= body + n_fat_secs + n_difat_secs {
            break;
        }
        n_fat_secs += 1;
    }
    let total = n_fat_secs + n_difat_secs + body;
    let mut fat = vec![FREESECT; n_fat_secs * (SSZ / 4)];
    let mut next = 0u32;
    for i in 0..n_fat_secs {
        fat[i] = FATSECT;
        next += 1;
    }
    for i in 0..n_difat_secs {
        fat[n_fat_secs + i] = 0xFFFF_FFFC; // DIFSECT
        next += 1;
    }
    let mut alloc_chain = |k: usize, fat: &mut Vec<u32>, next: &mut u32| -> u32 {
        if k == 0 {
            return ENDOFCHAIN;
        }
        let first = *next;
        for j in 0..k {
            fat[(first as usize) + j] = if j + 1 == k { ENDOFCHAIN } else { first + j as u32 + 1 };
        }
        *next += k as u32;
        first
    };
    let dir_start = alloc_chain(n_dir_secs, &mut fat, &mut next);
    let minifat_start = alloc_chain(n_minifat_secs, &mut fat, &mut next);
    let mini_start = alloc_chain(n_mini_secs, &mut fat, &mut next);
    let mut ranges = vec![(0u64, 0u64); n];
    for &i in &big {
        let k = secs(streams[i].len());
        let s = alloc_chain(k, &mut fat, &mut next);
        starts[i] = s;
        ranges[i] = (((s as usize + 1) * SSZ) as u64, ((s as usize + 1 + k) * SSZ) as u64);
    }
    for i in 0..n {
        if is_mini[i] && starts[i] != ENDOFCHAIN {
            let a = (mini_start as usize + 1) * SSZ + starts[i] as usize * 64;
            ranges[i] = (a as u64, (a + streams[i].len()) as u64);
        }
    }
    let mut img = vec![0u8; (total + 1) * SSZ];
    // header
    img[..8].copy_from_slice(&[0xD0, 0xCF, 0x11, 0xE0, 0xA1, 0xB1, 0x1A, 0xE1]);
    img[24..26].copy_from_slice(&0x003Eu16.to_le_bytes());
    img[26..28].copy_from_slice(&3u16.to_le_bytes());
    img[28..30].copy_from_slice(&0xFFFEu16.to_le_bytes());
    img[30..32].copy_from_slice(&9u16.to_le_bytes());
    img[32..34].copy_from_slice(&6u16.to_le_bytes());
    img[40..44].copy_from_slice(&0u32.to_le_bytes());
    img[44..48].copy_from_slice(&(n_fat_secs as u32).to_le_bytes());
    img[48..52].copy_from_slice(&dir_start.to_le_bytes());
    img[56..60].copy_from_slice(&4096u32.to_le_bytes());
    img[60..64].copy_from_slice(&(if n_minifat_secs > 0 { minifat_start } else { ENDOFCHAIN }).to_le_bytes());
    img[64..68].copy_from_slice(&(n_minifat_secs as u32).to_le_bytes());
    img[68..72].copy_from_slice(&(if n_difat_secs > 0 { n_fat_secs as u32 } else { ENDOFCHAIN }).to_le_bytes());
    img[72..76].copy_from_slice(&(n_difat_secs as u32).to_le_bytes());
    for i in 0..109 {
        let v = if i < n_fat_secs { i as u32 } else { FREESECT };
        img[76 + 4 * i..80 + 4 * i].copy_from_slice(&v.to_le_bytes());
    }
    for d in 0..n_difat_secs {
        let o = (n_fat_secs + d + 1) * SSZ;
        for k in 0..127 {
            let idx = 109 + d * 127 + k;
            let v = if idx < n_fat_secs { idx as u32 } else { FREESECT };
            img[o + 4 * k..o + 4 * k + 4].copy_from_slice(&v.to_le_bytes());
        }
        let nxt = if d + 1 < n_difat_secs { (n_fat_secs + d + 1) as u32 } else { ENDOFCHAIN };
        img[o + 508..o + 512].copy_from_slice(&nxt.to_le_bytes());
    }
    // FAT
    for (i, v) in fat.iter().enumerate() {
        let o = SSZ + 4 * i;
        img[o..o + 4].copy_from_slice(&v.to_le_bytes());
    }
    // directory
    let doff = (dir_start as usize + 1) * SSZ;
    for (i, e) in dir.iter().enumerate() {
        let mut raw = e.raw;
        let (start, size) = if i == 0 {
            (if n_mini_secs > 0 { mini_start } else { ENDOFCHAIN }, mini_container.len() as u64)
        } else if e.typ == 2 {
            (starts[i], streams[i].len() as u64)
        } else {
            (0, 0)
        };
        raw[116..120].copy_from_slice(&start.to_le_bytes());
        raw[120..124].copy_from_slice(&(size as u32).to_le_bytes());
        raw[124..128].copy_from_slice(&0u32.to_le_bytes());
        img[doff + 128 * i..doff + 128 * (i + 1)].copy_from_slice(&raw);
    }
    // unused directory slots: type 0, links NOSTREAM
    for i in n..n_dir_secs * 4 {
        let o = doff + 128 * i;
        for k in [68usize, 72, 76] {
            img[o + k..o + k + 4].copy_from_slice(&FREESECT.to_le_bytes());
        }
    }
    // mini FAT
    if n_minifat_secs > 0 {
        let o = (minifat_start as usize + 1) * SSZ;
        for i in 0..n_minifat_secs * (SSZ / 4) {
            let v = minifat.get(i).copied().unwrap_or(FREESECT);
            img[o + 4 * i..o + 4 * i + 4].copy_from_slice(&v.to_le_bytes());
        }
    }
    if n_mini_secs > 0 {
        let o = (mini_start as usize + 1) * SSZ;
        img[o..o + mini_container.len()].copy_from_slice(&mini_container);
    }
    for &i in &big {
        let o = (starts[i] as usize + 1) * SSZ;
        img[o..o + streams[i].len()].copy_from_slice(&streams[i]);
    }
    (img, ranges)
}

/// All stream contents by directory index (empty for non-streams / unreadable ones).
pub fn all_streams(img: &[u8], l: &Layout) -> Vec<Vec<u8>> {
    l.dir.iter().map(|e| stream_bytes(img, l, e).unwrap_or_default()).collect()
}


/// A fresh directory entry (for synthesized containers): `typ` 5 = root, 2 = stream.
pub fn make_dir_entry(index: usize, name: &str, typ: u8, child: u32) -> DirEntry {
    let mut raw = [0u8; 128];
    let units: Vec<u16> = name.encode_utf16().take(31).collect();
    for (i, u) in units.iter().enumerate() {
        raw[2 * i..2 * i + 2].copy_from_slice(&u.to_le_bytes());
    }
    raw[64..66].copy_from_slice(&(((units.len() + 1) * 2) as u16).to_le_bytes());
    raw[66] = typ;
    raw[67] = 1; // black
    for k in [68usize, 72] {
        raw[k..k + 4].copy_from_slice(&FREESECT.to_le_bytes());
    }
    raw[76..80].copy_from_slice(&child.to_le_bytes());
    DirEntry { index, offset: 0, raw, name: name.to_string(), typ, start: 0, size: 0 }
}
