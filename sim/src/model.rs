//! The single-copy reference model of DESIGN §4.1: `M(file, op, args, h)` is the result of
//! `op` on a *fresh* reader over a *perfect* disk with header option `h` set first (and the
//! documented `load_*` prerequisite for table / merged-region getters).  Memoised per file.

use crate::corpus::{Fixture, Format};
use crate::runner::{execute, ExecOpts, Limits};
use crate::simdisk::Delivery;
use crate::wb::{Entry, Op, Outcome, SheetArg};
use calamine::{Data, Range};
use std::collections::HashMap;
use std::sync::Arc;

pub struct FileModel {
    pub name: String,
    pub format: Format,
    pub image: Arc<Vec<u8>>,
    pub open: Outcome,
    pub sheet_names: Vec<String>,
    pub table_names: Vec<String>,
    /// default-option range per sheet (typed), `Err` text otherwise
    pub defaults: HashMap<String, Result<Range<Data>, String>>,
    memo: HashMap<(Op, Option<u32>), Outcome>,
    ws_memo: HashMap<Option<u32>, Vec<(String, u64)>>,
    pub clean_cpu_ns: i64,
    pub clean_events: u64,
    pub queries: u64,
}

pub const MODEL_CPU_NS: i64 = 120_000_000_000;

impl FileModel {
    pub fn new(fx: &Fixture) -> FileModel {
        let image = fx.bytes.clone();
        let limits = Limits::for_input(image.len(), MODEL_CPU_NS);
        let entry = Entry::own(fx.format);
        // one clean pass: open, names, tables, default ranges
        let ops = vec![Op::LoadTables, Op::TableNames];
        let ex = execute(image.clone(), entry, Delivery::perfect(), &ops, limits, &ExecOpts { capture: false, stop_on_panic: true, probes: &[], record_kinds: false });
        let sheet_names = ex.sheet_names.clone();
        let mut m = FileModel {
            name: fx.name.clone(),
            format: fx.format,
            image,
            open: ex.open.clone(),
            sheet_names,
            table_names: vec![],
            defaults: HashMap::new(),
            memo: HashMap::new(),
            ws_memo: HashMap::new(),
            clean_cpu_ns: ex.cpu_ns,
            clean_events: ex.events,
            queries: 0,
        };
        if matches!(m.open, Outcome::Ok(_)) {
            m.table_names = m.query_table_names();
            let names = m.sheet_names.clone();
            let mut total_cpu = ex.cpu_ns;
            for n in names {
                let ex = execute(
                    m.image.clone(),
                    entry,
                    Delivery::perfect(),
                    &[Op::Range(SheetArg::Lit(n.clone()))],
                    limits,
                    &ExecOpts { capture: true, stop_on_panic: true, probes: &[], record_kinds: false },
                );
                total_cpu += ex.cpu_ns;
                let r = match ex.ops.into_iter().next() {
                    Some(rec) => match (rec.outcome, rec.range) {
                        (Outcome::Ok(_), Some(r)) => Ok(r),
                        (o, _) => Err(o.brief()),
                    },
                    None => Err("not executed".into()),
                };
                m.defaults.insert(n, r);
            }
            m.clean_cpu_ns = total_cpu;
        }
        m
    }

    fn query_table_names(&mut self) -> Vec<String> {
        // table names through the typed API on a fresh reader
        use calamine::{Reader, Xlsx};
        if self.format != Format::Xlsx {
            return vec![];
        }
        let (disk, _ctl) = crate::simdisk::SimDisk::new(self.image.clone(), Delivery::perfect(), u64::MAX);
        let r = std::panic::catch_unwind(std::panic::AssertUnwindSafe(|| {
            let mut x: Xlsx<_> = Xlsx::new(disk).ok()?;
            x.load_tables().ok()?;
            Some(x.table_names().into_iter().cloned().collect::<Vec<_>>())
        }));
        let _ = crate::guard::take_panic();
        r.ok().flatten().unwrap_or_default()
    }

    /// Replace positional arguments by literal names, so that the memo key and the comparison
    /// do not depend on which reader resolved them.
    pub fn resolve(&self, op: &Op) -> Op {
        let sh = |a: &SheetArg| match a {
            SheetArg::Lit(s) => SheetArg::Lit(s.clone()),
            SheetArg::Idx(k) => SheetArg::Lit(
                self.sheet_names.get(*k).cloned().unwrap_or_else(|| format!("\u{1}no-such-sheet-{}", k)),
            ),
        };
        let tb = |a: &SheetArg| match a {
            SheetArg::Lit(s) => SheetArg::Lit(s.clone()),
            SheetArg::Idx(k) => SheetArg::Lit(
                self.table_names.get(*k).cloned().unwrap_or_else(|| format!("\u{1}no-such-table-{}", k)),
            ),
        };
        match op {
            Op::Range(a) => Op::Range(sh(a)),
            Op::RangeRef(a) => Op::RangeRef(sh(a)),
            Op::Formula(a) => Op::Formula(sh(a)),
            Op::MergeCells(a) => Op::MergeCells(sh(a)),
            Op::MergedBySheet(a) => Op::MergedBySheet(sh(a)),
            Op::TableNamesInSheet(a) => Op::TableNamesInSheet(sh(a)),
            Op::TableByName(a) => Op::TableByName(tb(a)),
            Op::TableByNameRef(a) => Op::TableByNameRef(tb(a)),
            o => o.clone(),
        }
    }

    /// Entries `(name, canonical hash)` of `worksheets()` on a fresh reader under header `h`.
    pub fn worksheets_entries(&mut self, header: Option<u32>) -> Vec<(String, u64)> {
        if let Some(v) = self.ws_memo.get(&header) {
            return v.clone();
        }
        let mut ops = Vec::new();
        if header.is_some() {
            ops.push(Op::SetHeader(header));
        }
        ops.push(Op::Worksheets);
        let limits = Limits::for_input(self.image.len(), MODEL_CPU_NS);
        let ex = execute(
            self.image.clone(),
            Entry::own(self.format),
            Delivery::perfect(),
            &ops,
            limits,
            &ExecOpts { capture: false, stop_on_panic: true, probes: &[], record_kinds: false },
        );
        let v = ex.ops.into_iter().last().map(|r| r.worksheets).unwrap_or_default();
        self.ws_memo.insert(header, v.clone());
        v
    }

    /// `M(op, h)`: fresh reader of the file's own format, perfect disk.
    pub fn outcome(&mut self, op: &Op, header: Option<u32>) -> Outcome {
        let op = self.resolve(op);
        // the eager formats' own readers have no `worksheet_range_ref`; where the call exists for
        // them (the `Sheets` wrapper) the property defines its result: the owned range, cell by cell
        let op = match op {
            Op::RangeRef(a) if !self.format.is_lazy() => Op::Range(a),
            Op::RangeAtRef(k) if !self.format.is_lazy() => Op::RangeAt(k),
            o => o,
        };
        // calls whose result does not depend on the header option share one memo entry
        let h = if header_sensitive(&op) { header } else { None };
        if let Some(o) = self.memo.get(&(op.clone(), h)) {
            return o.clone();
        }
        self.queries += 1;
        let mut ops = Vec::new();
        if h.is_some() {
            ops.push(Op::SetHeader(h));
        }
        match op {
            Op::TableNames | Op::TableNamesInSheet(_) | Op::TableByName(_) | Op::TableByNameRef(_) => ops.push(Op::LoadTables),
            Op::MergedAll | Op::MergedBySheet(_) => ops.push(Op::LoadMerged),
            _ => {}
        }
        ops.push(op.clone());
        let limits = Limits::for_input(self.image.len(), MODEL_CPU_NS);
        let ex = execute(
            self.image.clone(),
            Entry::own(self.format),
            Delivery::perfect(),
            &ops,
            limits,
            &ExecOpts { capture: false, stop_on_panic: true, probes: &[], record_kinds: false },
        );
        let o = match ex.open {
            Outcome::Ok(_) => {
                // a failed prerequisite makes the getter a skipped call in the model too
                ex.ops.into_iter().last().map(|r| r.outcome).unwrap_or(Outcome::Skipped("not executed"))
            }
            o => o,
        };
        self.memo.insert((op, h), o.clone());
        o
    }
}

pub fn header_sensitive(op: &Op) -> bool {
    matches!(
        op,
        Op::Range(_)
            | Op::RangeRef(_)
            | Op::RangeAt(_)
            | Op::RangeAtRef(_)
            | Op::Worksheets
            | Op::TableByName(_)
            | Op::TableByNameRef(_)
    )
}

#[derive(Default)]
pub struct Models {
    map: HashMap<String, FileModel>,
}

impl Models {
    pub fn get(&mut self, fx: &Fixture) -> &mut FileModel {
        self.map.entry(fx.name.clone()).or_insert_with(|| FileModel::new(fx))
    }
}
