//! `SimDisk`: the only storage device calamine sees (DESIGN §2.1).
//!
//! Every `read` and `seek` is an event with a global sequence number.  The delivery schedule
//! (a pure function of `Delivery` and the event number) decides how many bytes a read returns
//! and whether the event fails.  Clones share the controller and keep their own position,
//! exactly like cloning a `Cursor` (needed by `open_workbook_auto_from_rs`).

use crate::prng::{h3, Sig};
use serde::{Deserialize, Serialize};
use std::cell::RefCell;
use std::io::{self, Read, Seek, SeekFrom};
use std::rc::Rc;
use std::sync::Arc;

#[derive(Clone, Copy, Debug, PartialEq, Eq, Serialize, Deserialize)]
pub enum Chop {
    /// every read returns everything asked for (a perfect device)
    Full,
    /// every read returns exactly one byte
    One,
    /// 1..=7 bytes
    Tiny,
    /// about half of what was asked
    Half,
    /// per event one of the above, mostly full
    Mixed,
    /// full except that no read may cross a multiple of `2^k` bytes of the image
    Page(u8),
}

#[derive(Clone, Copy, Debug, PartialEq, Eq, Serialize, Deserialize)]
pub enum FaultKind {
    /// `ErrorKind::Interrupted`, nothing consumed
    Eintr,
    /// one failing event
    Eio,
    /// the device is dead from this event on
    EioSticky,
    /// only applies to seek events; a read at that slot is left alone
    SeekErr,
}

/// An error fault placed inside an API call: the `rel`-th I/O event of operation `op`
/// (`op == 0` is the open call).
#[derive(Clone, Copy, Debug, PartialEq, Eq, Serialize, Deserialize)]
pub struct PlacedFault {
    pub op: u32,
    pub rel: u32,
    pub kind: FaultKind,
}

#[derive(Clone, Debug, PartialEq, Eq, Serialize, Deserialize)]
pub struct Delivery {
    pub seed: u64,
    pub chop: Chop,
    /// probability (parts per 1024) that a read event returns EINTR instead of data
    pub eintr_ppk: u16,
    pub faults: Vec<PlacedFault>,
    /// events forced to a perfect full-length delivery (used by the minimiser)
    #[serde(default)]
    pub force_full: Vec<u64>,
}

impl Delivery {
    pub fn perfect() -> Self {
        Delivery { seed: 0, chop: Chop::Full, eintr_ppk: 0, faults: vec![], force_full: vec![] }
    }
    pub fn is_perfect(&self) -> bool {
        self.chop == Chop::Full && self.eintr_ppk == 0 && self.faults.is_empty()
    }
}

#[derive(Default, Clone, Debug)]
pub struct Fired {
    pub short_reads: u64,
    pub eintr: u64,
    pub eio: u64,
    pub eio_sticky: u64,
    pub seek_err: u64,
    pub dead_hits: u64,
}

impl Fired {
    pub fn error_faults(&self) -> u64 {
        self.eio + self.eio_sticky + self.seek_err + self.dead_hits
    }
}

pub struct Ctl {
    pub delivery: Delivery,
    pub ev: u64,
    pub op: u32,
    pub op_ev: u32,
    pub dead: bool,
    pub reads: u64,
    pub seeks: u64,
    pub bytes: u64,
    pub max_events: u64,
    pub budget_exceeded: bool,
    pub sig: Sig,
    pub fired: Fired,
    /// what fired during the current op (reset by `begin_op`)
    pub op_fired: Fired,
    /// per-op event counts, index = op
    pub op_events: Vec<u32>,
    /// bitset of delivered 16-byte granules of the image
    pub delivered: Vec<u64>,
    pub track_delivered: bool,
    /// when set, the kind of every event is appended to `kinds` (b'r' / b's'), per call
    pub record_kinds: bool,
    pub kinds: Vec<(u32, u8)>,
}

impl Ctl {
    pub fn new(delivery: Delivery, image_len: usize, max_events: u64) -> Self {
        Ctl {
            delivery,
            ev: 0,
            op: 0,
            op_ev: 0,
            dead: false,
            reads: 0,
            seeks: 0,
            bytes: 0,
            max_events,
            budget_exceeded: false,
            sig: Sig::new(),
            fired: Fired::default(),
            op_fired: Fired::default(),
            op_events: vec![0],
            delivered: vec![0; image_len / 16 / 64 + 1],
            track_delivered: false,
            record_kinds: false,
            kinds: Vec::new(),
        }
    }
    pub fn begin_op(&mut self, op: u32) {
        self.op = op;
        self.op_ev = 0;
        self.op_fired = Fired::default();
        while self.op_events.len() <= op as usize {
            self.op_events.push(0);
        }
    }
    fn tick(&mut self) -> (u64, u32) {
        let ev = self.ev;
        let rel = self.op_ev;
        self.ev += 1;
        self.op_ev += 1;
        let op = self.op as usize;
        if op < self.op_events.len() {
            self.op_events[op] += 1;
        }
        (ev, rel)
    }
    fn placed(&self, rel: u32) -> Option<FaultKind> {
        for f in &self.delivery.faults {
            if f.op == self.op && f.rel == rel {
                return Some(f.kind);
            }
        }
        None
    }
    fn mark(&mut self, off: u64, n: usize) {
        if !self.track_delivered || n == 0 {
            return;
        }
        let a = off / 16;
        let b = (off + n as u64 - 1) / 16;
        for g in a..=b {
            let w = (g / 64) as usize;
            if w < self.delivered.len() {
                self.delivered[w] |= 1 << (g % 64);
            }
        }
    }
    pub fn was_delivered(&self, off: u64) -> bool {
        let g = off / 16;
        let w = (g / 64) as usize;
        w < self.delivered.len() && (self.delivered[w] >> (g % 64)) & 1 == 1
    }
    pub fn any_delivered(&self, start: u64, end: u64) -> bool {
        if end <= start {
            return false;
        }
        let a = start / 16;
        let b = (end - 1) / 16;
        (a..=b).any(|g| {
            let w = (g / 64) as usize;
            w < self.delivered.len() && (self.delivered[w] >> (g % 64)) & 1 == 1
        })
    }
}

fn eio() -> io::Error {
    io::Error::new(io::ErrorKind::Other, "sim EIO")
}

#[derive(Clone)]
pub struct SimDisk {
    image: Arc<Vec<u8>>,
    pos: u64,
    ctl: Rc<RefCell<Ctl>>,
}

impl SimDisk {
    pub fn new(image: Arc<Vec<u8>>, delivery: Delivery, max_events: u64) -> (SimDisk, Rc<RefCell<Ctl>>) {
        let ctl = Rc::new(RefCell::new(Ctl::new(delivery, image.len(), max_events)));
        (SimDisk { image, pos: 0, ctl: ctl.clone() }, ctl)
    }
    pub fn ctl(&self) -> Rc<RefCell<Ctl>> {
        self.ctl.clone()
    }
}

fn chop_len(d: &Delivery, ev: u64, pos: u64, want: usize) -> usize {
    if want <= 1 {
        return want;
    }
    let r = h3(d.seed, 0x11, ev);
    let k = match d.chop {
        Chop::Full => want,
        Chop::One => 1,
        Chop::Tiny => 1 + (r % 7) as usize,
        Chop::Half => (want / 2).max(1) + (r % 2) as usize,
        Chop::Mixed => match r % 16 {
            0 => 1,
            1 => 1 + ((r >> 8) % 7) as usize,
            2 => (want / 2).max(1),
            3 => 1 + ((r >> 8) as usize % want),
            _ => want,
        },
        Chop::Page(k) => {
            let page = 1u64 << k.clamp(2, 20);
            let to_boundary = page - (pos % page);
            (to_boundary as usize).min(want)
        }
    };
    k.clamp(1, want)
}

impl Read for SimDisk {
    fn read(&mut self, buf: &mut [u8]) -> io::Result<usize> {
        if buf.is_empty() {
            return Ok(0);
        }
        let mut c = self.ctl.borrow_mut();
        let (ev, rel) = c.tick();
        c.reads += 1;
        if c.record_kinds {
            let op = c.op;
            c.kinds.push((op, b'r'));
        }
        if c.ev > c.max_events {
            c.budget_exceeded = true;
            c.dead = true;
        }
        if c.dead {
            c.fired.dead_hits += 1;
            c.op_fired.dead_hits += 1;
            c.sig.u(0xDEAD ^ ev);
            return Err(eio());
        }
        let forced = c.delivery.force_full.contains(&ev);
        if !forced {
            match c.placed(rel) {
                Some(FaultKind::Eintr) => {
                    c.fired.eintr += 1;
                    c.op_fired.eintr += 1;
                    c.sig.u(0xE1 ^ ev);
                    return Err(io::Error::new(io::ErrorKind::Interrupted, "sim EINTR"));
                }
                Some(FaultKind::Eio) => {
                    c.fired.eio += 1;
                    c.op_fired.eio += 1;
                    c.sig.u(0xE2 ^ ev);
                    return Err(eio());
                }
                Some(FaultKind::EioSticky) => {
                    c.fired.eio_sticky += 1;
                    c.op_fired.eio_sticky += 1;
                    c.dead = true;
                    c.sig.u(0xE3 ^ ev);
                    return Err(eio());
                }
                Some(FaultKind::SeekErr) | None => {}
            }
            if c.delivery.eintr_ppk > 0 && (h3(c.delivery.seed, 0x22, ev) % 1024) < c.delivery.eintr_ppk as u64 {
                c.fired.eintr += 1;
                c.op_fired.eintr += 1;
                c.sig.u(0xE1 ^ ev);
                return Err(io::Error::new(io::ErrorKind::Interrupted, "sim EINTR"));
            }
        }
        let len = self.image.len() as u64;
        let avail = len.saturating_sub(self.pos) as usize;
        let want = buf.len().min(avail);
        if want == 0 {
            c.sig.u(0xE0F ^ self.pos);
            return Ok(0);
        }
        let k = if forced { want } else { chop_len(&c.delivery, ev, self.pos, want) };
        if k < want {
            c.fired.short_reads += 1;
            c.op_fired.short_reads += 1;
        }
        let p = self.pos as usize;
        buf[..k].copy_from_slice(&self.image[p..p + k]);
        c.mark(self.pos, k);
        c.bytes += k as u64;
        c.sig.u(self.pos);
        c.sig.u(((buf.len() as u64) << 32) | k as u64);
        self.pos += k as u64;
        Ok(k)
    }
}

impl Seek for SimDisk {
    fn seek(&mut self, to: SeekFrom) -> io::Result<u64> {
        let mut c = self.ctl.borrow_mut();
        let (ev, rel) = c.tick();
        c.seeks += 1;
        if c.record_kinds {
            let op = c.op;
            c.kinds.push((op, b's'));
        }
        if c.ev > c.max_events {
            c.budget_exceeded = true;
            c.dead = true;
        }
        if c.dead {
            c.fired.dead_hits += 1;
            c.op_fired.dead_hits += 1;
            c.sig.u(0xDEAD ^ ev);
            return Err(eio());
        }
        if !c.delivery.force_full.contains(&ev) {
            match c.placed(rel) {
                Some(FaultKind::SeekErr) | Some(FaultKind::Eio) => {
                    c.fired.seek_err += 1;
                    c.op_fired.seek_err += 1;
                    c.sig.u(0xE4 ^ ev);
                    return Err(eio());
                }
                Some(FaultKind::EioSticky) => {
                    c.fired.eio_sticky += 1;
                    c.op_fired.eio_sticky += 1;
                    c.dead = true;
                    c.sig.u(0xE3 ^ ev);
                    return Err(eio());
                }
                _ => {}
            }
        }
        let len = self.image.len() as i128;
        let np: i128 = match to {
            SeekFrom::Start(o) => o as i128,
            SeekFrom::End(o) => len + o as i128,
            SeekFrom::Current(o) => self.pos as i128 + o as i128,
        };
        if np < 0 || np > u64::MAX as i128 {
            c.sig.u(0xBAD5EE);
            return Err(io::Error::new(io::ErrorKind::InvalidInput, "invalid seek to a negative or overflowing position"));
        }
        self.pos = np as u64;
        c.sig.u(0x5EE0 ^ self.pos);
        Ok(self.pos)
    }
}
