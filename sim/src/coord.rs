//! Coordinated stored faults: structural damage that needs two or three edits which agree with
//! each other (a relationship that points at a folder *and* a relationship part for that folder; a
//! table *and* a sheet without cells; a shared formula whose master cell lies below its
//! dependents).  A single-site sweep cannot reach these and a random pair of sites practically
//! never does, so they are enumerated (DESIGN §12.3, "coordinated faults").  Several of these
//! kinds were written after a code-reading sub-agent pointed at the code path; each is a class
//! of damage, swept over every place of every fixture where it applies.
//!
//! Pure function of the fixture bytes and the tier.

use crate::corpus::{Fixture, Format};
use crate::engine::Tier;
use crate::faultgen::SiteGroup;
use crate::image::Parts;
use crate::spec::{Edit, Layer, Pack, StoredFault};

fn zp(part: &str, e: Edit, why: String) -> StoredFault {
    StoredFault { layer: Layer::ZipPart { part: part.to_string(), pack: Pack::Deflated }, edit: Some(e), why }
}

fn find_from(h: &[u8], n: &[u8], from: usize) -> Option<usize> {
    if from > h.len() || n.is_empty() {
        return None;
    }
    h[from..].windows(n.len()).position(|w| w == n).map(|p| p + from)
}

fn find_all(h: &[u8], n: &[u8]) -> Vec<usize> {
    let mut v = Vec::new();
    let mut at = 0;
    while let Some(p) = find_from(h, n, at) {
        v.push(p);
        at = p + n.len();
    }
    v
}

/// `(value offset, value length)` of attribute `name="…"` inside the tag that starts at `tag`
fn attr_in_tag(data: &[u8], tag: usize, name: &[u8]) -> Option<(usize, usize)> {
    let end = tag + data[tag..].iter().position(|c| *c == b'>')?;
    let mut pat = vec![b' '];
    pat.extend_from_slice(name);
    pat.extend_from_slice(b"=\"");
    let p = find_from(&data[..end], &pat, tag)?;
    let v = p + pat.len();
    let len = data[v..end].iter().position(|c| *c == b'"')?;
    Some((v, len))
}

/// Replace `len` bytes at `off` by `bytes`, as two edits (insert first so that offsets before `off`
/// stay valid; callers order replacements from the end of the part to its start).
fn replace(part: &str, off: usize, len: usize, bytes: &[u8], why: &str) -> Vec<StoredFault> {
    vec![
        zp(part, Edit::Delete { off, len }, format!("{} (old bytes removed)", why)),
        zp(part, Edit::Insert { off, bytes: bytes.to_vec() }, why.to_string()),
    ]
}

fn split_a1(s: &[u8]) -> Option<(String, u32)> {
    let letters: String = s.iter().take_while(|c| c.is_ascii_alphabetic()).map(|c| *c as char).collect();
    let digits: String = s[letters.len()..].iter().map(|c| *c as char).collect();
    if letters.is_empty() || digits.is_empty() {
        return None;
    }
    Some((letters, digits.parse().ok()?))
}

fn sheet_parts(names: &[String]) -> Vec<String> {
    names.iter().filter(|n| n.starts_with("xl/worksheets/") && n.ends_with(".xml") && !n.contains("_rels")).cloned().collect()
}

pub fn coordinated(fx: &Fixture, parts: &mut Parts, tier: Tier) -> Vec<SiteGroup> {
    let mut out: Vec<SiteGroup> = Vec::new();
    let names: Vec<String> = parts.zip.as_ref().map(|z| z.iter().map(|e| e.name.clone()).collect()).unwrap_or_default();
    let thorough = tier == Tier::Thorough;
    let mut push = |faults: Vec<StoredFault>, light: bool, out: &mut Vec<SiteGroup>| out.push(SiteGroup { inner: None, faults, light, scaling: false });
    match fx.format {
        Format::Xlsx => {
            let wb_rels = "xl/_rels/workbook.xml.rels";
            // ---- a sheet relationship that names a folder, and a relationship part for it ----
            if let Some(rels) = parts.part(wb_rels) {
                for sp in sheet_parts(&names) {
                    let file = sp.rsplit('/').next().unwrap_or("").to_string();
                    let sheet_rels = format!("xl/worksheets/_rels/{}.rels", file);
                    if !names.contains(&sheet_rels) {
                        continue;
                    }
                    let target = format!("worksheets/{}", file);
                    if let Some(p) = find_from(&rels, target.as_bytes(), 0) {
                        // the target may be written `worksheets/x.xml`, `/xl/worksheets/x.xml`, …: only
                        // the `/x.xml` tail is removed
                        let tail = p + "worksheets".len();
                        for to in ["xl/_rels/worksheets.rels", "xl/_rels/.rels", "_rels/worksheets.rels"] {
                            push(
                                vec![
                                    zp(wb_rels, Edit::Delete { off: tail, len: target.len() - "worksheets".len() }, format!("coord:rels-collapse relationship target {} -> worksheets (a folder)", target)),
                                    StoredFault { layer: Layer::ZipPartRename { part: sheet_rels.clone(), to: to.to_string() }, edit: None, why: format!("coord:rels-collapse {} renamed to {}", sheet_rels, to) },
                                ],
                                false,
                                &mut out,
                            );
                        }
                        // and the target reduced to nothing / to the package root
                        for (bytes, what) in [(&b""[..], "empty"), (b"/", "/"), (b"..", ".."), (b"../..", "../.."), (b"worksheets/", "worksheets/")] {
                            let mut g = replace(wb_rels, p, target.len(), bytes, &format!("coord:rels-collapse relationship target {} -> {}", target, what));
                            g.push(StoredFault { layer: Layer::ZipPartRename { part: sheet_rels.clone(), to: "xl/_rels/.rels".into() }, edit: None, why: format!("coord:rels-collapse {} renamed to xl/_rels/.rels", sheet_rels) });
                            push(g, false, &mut out);
                        }
                    }
                }
            }
            // ---- a table on a sheet without cells; tables whose header/totals counts disagree ----
            let tables: Vec<String> = names.iter().filter(|n| n.starts_with("xl/tables/") && n.ends_with(".xml")).cloned().collect();
            if !tables.is_empty() {
                let mut empty_all: Vec<StoredFault> = Vec::new();
                for sp in sheet_parts(&names) {
                    if let Some(d) = parts.part(&sp) {
                        if let (Some(a), Some(b)) = (find_from(&d, b"<sheetData>", 0), find_from(&d, b"</sheetData>", 0)) {
                            let a = a + b"<sheetData>".len();
                            if b > a {
                                empty_all.push(zp(&sp, Edit::Delete { off: a, len: b - a }, format!("coord:table-empty-sheet all rows of {} removed", sp)));
                            }
                        }
                    }
                }
                for t in &tables {
                    if let Some(d) = parts.part(t) {
                        if let Some(tag) = find_from(&d, b"<table ", 0) {
                            for (attr, val) in [("headerRowCount", "0"), ("headerRowCount", "2"), ("headerRowCount", "4294967295"), ("totalsRowCount", "1"), ("totalsRowCount", "4294967295")] {
                                let mut g = empty_all.clone();
                                let why = format!("coord:table-empty-sheet {} {}=\"{}\"", t, attr, val);
                                match attr_in_tag(&d, tag, attr.as_bytes()) {
                                    Some((v, len)) => g.extend(replace(t, v, len, val.as_bytes(), &why)),
                                    None => g.push(zp(t, Edit::Insert { off: tag + b"<table".len(), bytes: format!(" {}=\"{}\"", attr, val).into_bytes() }, why)),
                                }
                                push(g.clone(), false, &mut out);
                                // the same table attribute with the rows left in place
                                push(g[empty_all.len()..].to_vec(), false, &mut out);
                            }
                            // the table's ref moved to A1 / widened, with and without rows
                            if let Some((v, len)) = attr_in_tag(&d, tag, b"ref") {
                                for r in ["A1", "A1:A1", "A1:XFD1048576", "B2:A1", "A2:B1"] {
                                    let why = format!("coord:table-empty-sheet {} ref -> {}", t, r);
                                    let mut g = empty_all.clone();
                                    g.extend(replace(t, v, len, r.as_bytes(), &why));
                                    push(g.clone(), false, &mut out);
                                    push(g[empty_all.len()..].to_vec(), false, &mut out);
                                }
                            }
                        }
                    }
                }
                push(empty_all, false, &mut out);
            }
            // ---- a shared formula whose master cell is displaced relative to its dependents ----
            for sp in sheet_parts(&names) {
                let d = match parts.part(&sp) {
                    Some(d) => d,
                    None => continue,
                };
                let mut masters = 0;
                for f in find_all(&d, b"<f ") {
                    if masters >= if thorough { 12 } else { 3 } {
                        break;
                    }
                    let gt = match d[f..].iter().position(|c| *c == b'>') {
                        Some(g) => f + g,
                        None => continue,
                    };
                    if d[gt - 1] == b'/' || attr_in_tag(&d, f, b"ref").is_none() || find_from(&d[..gt], b"t=\"shared\"", f).is_none() {
                        continue;
                    }
                    let text_end = match find_from(&d, b"</f>", gt) {
                        Some(e) => e,
                        None => continue,
                    };
                    // the enclosing <c r="…">
                    let c = match d[..f].windows(3).rposition(|w| w == b"<c ") {
                        Some(c) => c,
                        None => continue,
                    };
                    let (rv, rlen) = match attr_in_tag(&d, c, b"r") {
                        Some(x) => x,
                        None => continue,
                    };
                    let (col, row) = match split_a1(&d[rv..rv + rlen]) {
                        Some(x) => x,
                        None => continue,
                    };
                    masters += 1;
                    let text = b"A1+B2+C3+$D$4+E5:F6+G7+Sheet1!H8+I9+J10";
                    let max_k: i64 = if thorough { 12 } else { 10 };
                    for k in (-max_k..=max_k).filter(|k| *k != 0) {
                        let nr = row as i64 + k;
                        if nr < 1 {
                            continue;
                        }
                        let why = format!("coord:shared-master-moved {} master {}{} -> {}{} (dependents get row offset {})", sp, col, row, col, nr, -k);
                        // later offset first: the formula text, then the cell reference
                        let mut g = replace(&sp, gt + 1, text_end - (gt + 1), text, &format!("{} [formula text with references to rows 1..10]", why));
                        g.extend(replace(&sp, rv, rlen, format!("{}{}", col, nr).as_bytes(), &why));
                        push(g, false, &mut out);
                    }
                    // the master moved sideways (column offsets)
                    for nc in ["A", "B", "C", "XFD"] {
                        if nc != col {
                            let why = format!("coord:shared-master-moved {} master {}{} -> {}{}", sp, col, row, nc, row);
                            let mut g = replace(&sp, gt + 1, text_end - (gt + 1), text, &format!("{} [formula text]", why));
                            g.extend(replace(&sp, rv, rlen, format!("{}{}", nc, row).as_bytes(), &why));
                            push(g, false, &mut out);
                        }
                    }
                }
            }
            // ---- floods that multiply two sizes of the input with each other ----
            let named = fx.name.starts_with("any_sheets.") || fx.name.starts_with("issue_391.") || fx.name.starts_with("temperature-table.");
            // the aliasing floods (many names for one part, many dependents of one formula) cost
            // N x S by the nature of what the API has to return (DESIGN §11, "not pursued"): they
            // are swept on the three small named fixtures only, at sizes inside the budgets, as a
            // guard against anything worse than N x S
            let aliasing = named;
            if thorough || named {
                let (n_xf, l_fmt) = if thorough { (40_000u32, 400_000u32) } else { (20_000, 200_000) };
                // one long custom number format referenced by many cell formats
                if let Some(d) = parts.part("xl/styles.xml") {
                    if let Some(xfs) = find_from(&d, b"<cellXfs", 0) {
                        if let Some(gt) = d[xfs..].iter().position(|c| *c == b'>') {
                            let at_xf = xfs + gt + 1;
                            // numFmts container: use the existing one or insert one after <styleSheet …>
                            let (at_fmt, container) = match find_from(&d, b"<numFmts", 0) {
                                Some(nf) if nf < xfs => (nf + d[nf..].iter().position(|c| *c == b'>').unwrap_or(0) + 1, false),
                                _ => match find_from(&d, b"<styleSheet", 0) {
                                    Some(ss) => (ss + d[ss..].iter().position(|c| *c == b'>').unwrap_or(0) + 1, true),
                                    None => (0, true),
                                },
                            };
                            if at_fmt > 0 && at_fmt < at_xf && d[xfs + gt - 1] != b'/' {
                                for (fill, what) in [(&b"0"[..], "zeros"), (b"[", "opening brackets"), (b"\\", "backslashes"), (b"\"", "quotes")] {
                                    let mut g = vec![zp("xl/styles.xml", Edit::Repeat { off: at_xf, pattern: b"<xf numFmtId=\"200\"/>".to_vec(), count: n_xf, start: 0, step: 0, le: vec![] }, format!("coord:style-flood {} cell formats referencing one custom number format", n_xf))];
                                    let (open, close): (&[u8], &[u8]) = if container { (b"<numFmts count=\"1\"><numFmt numFmtId=\"200\" formatCode=\"", b"\"/></numFmts>") } else { (b"<numFmt numFmtId=\"200\" formatCode=\"", b"\"/>") };
                                    g.push(zp("xl/styles.xml", Edit::Insert { off: at_fmt, bytes: close.to_vec() }, "coord:style-flood (end of the numFmt element)".into()));
                                    g.push(zp("xl/styles.xml", Edit::Repeat { off: at_fmt, pattern: fill.to_vec(), count: l_fmt, start: 0, step: 0, le: vec![] }, format!("coord:style-flood a custom number format of {} {}", l_fmt, what)));
                                    g.push(zp("xl/styles.xml", Edit::Insert { off: at_fmt, bytes: open.to_vec() }, "coord:style-flood (start of the numFmt element)".into()));
                                    push(g, true, &mut out);
                                }
                            }
                        }
                    }
                }
                // many sheet entries that share one relationship id (one part behind N names)
                if let Some(d) = parts.part("xl/workbook.xml").filter(|_| aliasing) {
                    if let (Some(s), Some(e)) = (find_from(&d, b"<sheet ", 0), find_from(&d, b"</sheets>", 0)) {
                        if let Some((v, len)) = attr_in_tag(&d, s, b"r:id") {
                            let rid = String::from_utf8_lossy(&d[v..v + len]).to_string();
                            for n in [2_000u32] {
                                push(
                                    vec![zp("xl/workbook.xml", Edit::Repeat { off: e, pattern: format!("<sheet name=\"alias{{#}}\" sheetId=\"{{#}}\" r:id=\"{}\"/>", rid).into_bytes(), count: n, start: 100, step: 1, le: vec![] }, format!("coord:sheet-alias-flood {} sheet entries sharing relationship {}", n, rid))],
                                    true,
                                    &mut out,
                                );
                            }
                        }
                    }
                }
                // one shared formula with a long text and many dependents
                for sp in sheet_parts(&names).into_iter().take(if aliasing { 1 } else { 0 }) {
                    if let Some(d) = parts.part(&sp) {
                        if let (Some(a), Some(b)) = (find_from(&d, b"<sheetData>", 0), find_from(&d, b"</sheetData>", 0)) {
                            let a = a + b"<sheetData>".len();
                            let (terms, deps) = (2_000u32, 4_000u32);
                            let mut g = vec![zp(&sp, Edit::Delete { off: a, len: b - a }, format!("coord:shared-flood (removal of the original rows of {})", sp))];
                            // rows 2.. are dependents; row 1 holds the master
                            g.push(zp(&sp, Edit::Repeat { off: a, pattern: b"<row r=\"{#}\"><c r=\"A{#}\"><f t=\"shared\" si=\"0\"/><v>1</v></c></row>".to_vec(), count: deps, start: 2, step: 1, le: vec![] }, format!("coord:shared-flood {} dependents of one shared formula", deps)));
                            let head = format!("<row r=\"1\"><c r=\"A1\"><f t=\"shared\" ref=\"A1:A{}\" si=\"0\">", deps + 1);
                            g.push(zp(&sp, Edit::Insert { off: a, bytes: b"0</f><v>1</v></c></row>".to_vec() }, "coord:shared-flood (end of the master cell)".into()));
                            g.push(zp(&sp, Edit::Repeat { off: a, pattern: b"B{#}+".to_vec(), count: terms, start: 1, step: 1, le: vec![] }, format!("coord:shared-flood master formula of {} terms", terms)));
                            g.push(zp(&sp, Edit::Insert { off: a, bytes: head.into_bytes() }, "coord:shared-flood (start of the master cell)".into()));
                            push(g, true, &mut out);
                        }
                    }
                }
            }
        }
        Format::Ods => {
            // ---- leading empty rows whose repeat count pushes the row numbers past 32 bits ----
            if let Some(d) = parts.part("content.xml") {
                let tables = find_all(&d, b"<table:table ");
                for (ti, t) in tables.iter().enumerate().rev().take(if thorough { 8 } else { 2 }) {
                    // insert before the first row of the table
                    let first_row = match find_from(&d, b"<table:table-row", *t) {
                        Some(r) => r,
                        None => continue,
                    };
                    if let Some(next) = tables.get(ti + 1) {
                        if first_row > *next {
                            continue;
                        }
                    }
                    for n in ["4294967295", "4294967296", "4294967297", "2147483648", "4294967294", "8589934591", "18446744073709551615", "18446744073709551614", "9223372036854775807", "1048576"] {
                        for cells in ["<table:table-cell/>", "", "<table:table-cell table:number-columns-repeated=\"3\"/>"] {
                            let row = format!("<table:table-row table:number-rows-repeated=\"{}\">{}</table:table-row>", n, cells);
                            push(vec![zp("content.xml", Edit::Insert { off: first_row, bytes: row.into_bytes() }, format!("coord:rows-repeated-lead table {} starts with an empty row repeated {} times ({})", ti, n, if cells.is_empty() { "no cell" } else { cells }))], false, &mut out);
                        }
                    }
                    // the count that puts the LAST data row on row 2^32-1 exactly: the last addressable
                    // row, where `row + 1` no longer fits.  Where the last data row of the table lies
                    // (its own repeat counts included) is asked of a reader over the undamaged file.
                    let last = {
                        use calamine::Reader;
                        calamine::Ods::new(std::io::Cursor::new(fx.bytes.as_ref().clone()))
                            .ok()
                            .and_then(|mut o| o.worksheet_range_at(ti).and_then(|r| r.ok()))
                            .and_then(|r| r.end())
                            .map(|e| e.0 as u64)
                    };
                    let mut ks: Vec<u64> = vec![0, 1, 2];
                    if let Some(l) = last {
                        ks.extend([l.saturating_sub(1), l, l + 1]);
                    }
                    ks.sort();
                    ks.dedup();
                    for k in ks {
                        let row = format!("<table:table-row table:number-rows-repeated=\"{}\"><table:table-cell/></table:table-row>", u32::MAX as u64 - k);
                        push(vec![zp("content.xml", Edit::Insert { off: first_row, bytes: row.into_bytes() }, format!("coord:rows-repeated-edge table {} starts with an empty row repeated 2^32-1-{} times", ti, k))], false, &mut out);
                    }
                    // two leading empty rows whose counts add up past the limits
                    for (n1, n2) in [("4294967295", "4294967295"), ("18446744073709551615", "2"), ("2147483648", "2147483648")] {
                        let row = format!("<table:table-row table:number-rows-repeated=\"{}\"><table:table-cell/></table:table-row><table:table-row table:number-rows-repeated=\"{}\"><table:table-cell/></table:table-row>", n1, n2);
                        push(vec![zp("content.xml", Edit::Insert { off: first_row, bytes: row.into_bytes() }, format!("coord:rows-repeated-lead table {} starts with two empty rows repeated {} and {} times", ti, n1, n2))], false, &mut out);
                    }
                }
            }
        }
        _ => {}
    }
    out
}
