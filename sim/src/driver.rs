//! Driver side (DESIGN §2.6–2.8, §6): spawns worker processes, attributes deaths, matches
//! known findings, minimises new violations into replay files, writes evidence.

use crate::engine::Tier;
use crate::guard::site_fn;
use crate::spec::{RunResult, RunSpec, Violation};
use serde::{Deserialize, Serialize};
use serde_json::json;
use std::collections::{BTreeMap, HashMap, HashSet};
use std::io::{BufRead, BufReader, Write};
use std::process::{Child, ChildStdin, ChildStdout, Command, Stdio};
use std::sync::{mpsc, Arc, Mutex};
use std::time::Instant;

pub fn verif_root() -> String {
    std::env::var("VERIF_ROOT").unwrap_or_else(|_| "/verif".to_string())
}

fn self_exe() -> std::path::PathBuf {
    std::env::current_exe().expect("current_exe")
}

// ------------------------------------------------------------------------------------------
// known findings
// ------------------------------------------------------------------------------------------

#[derive(Clone, Debug, Serialize, Deserialize)]
pub struct Known {
    pub property: String,
    /// open | fixed
    pub status: String,
    pub class: String,
    /// exact site key (`file::fn::source text`) or oracle label
    #[serde(default)]
    pub origin: String,
    /// `file::fn` — matches every site inside that function (used only for functions that are
    /// unchecked throughout, see DESIGN §6)
    #[serde(default)]
    pub origin_fn: String,
    #[serde(default)]
    pub what: String,
    #[serde(default)]
    pub commit: String,
    #[serde(default)]
    pub example_replay: String,
    #[serde(default)]
    pub seen_from: Vec<String>,
    /// further kept inputs of the same finding (other formats / paths that reach the same root)
    #[serde(default)]
    pub more_replays: Vec<String>,
}

pub fn load_known() -> Result<Vec<Known>, String> {
    let p = format!("{}/known_findings.jsonl", verif_root());
    let text = match std::fs::read_to_string(&p) {
        Ok(t) => t,
        Err(_) => return Ok(vec![]),
    };
    let mut v = Vec::new();
    for (i, l) in text.lines().enumerate() {
        let l = l.trim();
        if l.is_empty() || l.starts_with('#') {
            continue;
        }
        v.push(serde_json::from_str::<Known>(l).map_err(|e| format!("{}:{}: {}", p, i + 1, e))?);
    }
    Ok(v)
}

/// An open known finding is identified by its *input*: the kept replay file.  Before a batch, every
/// kept replay of the property is executed on the tree as it is now, and whatever site its
/// violation of the recorded class is attributed to *today* joins the entry's keys (exact site,
/// function, calling function).  A behaviour-preserving edit that renames the allocating function,
/// moves its statement into a helper two calls down, inlines it into its caller or puts a nested
/// `fn` above the keyed line (all four were tried by a red-team sub-agent and raised alarms with
/// static keys) then leaves the finding known, while a violation the kept inputs do not produce
/// is still new.  Nothing is written to the file.
fn rekey_known(known: &mut Vec<Known>, prop: &str) {
    let mut extra: Vec<Known> = Vec::new();
    for (k, rp) in known
        .iter()
        .filter(|k| k.status == "open" && k.property == prop)
        .flat_map(|k| std::iter::once(&k.example_replay).chain(k.more_replays.iter()).filter(|p| !p.is_empty()).map(move |p| (k, p)))
    {
        let path = format!("{}/{}", verif_root(), rp);
        let rf: ReplayFile = match std::fs::read_to_string(&path).ok().and_then(|t| serde_json::from_str(&t).ok()) {
            Some(r) => r,
            None => continue,
        };
        if let Ok(r) = exec_spec_isolated(&rf.spec, 1) {
            for v in r.violations.iter().filter(|v| v.class == k.class) {
                let mut fns = vec![site_fn(&v.origin)];
                if let Some(i) = v.msg.rfind("[caller=") {
                    fns.push(site_fn(v.msg[i + 8..].trim_end_matches(']')));
                }
                let mut e = k.clone();
                e.origin = v.origin.clone();
                e.origin_fn = String::new();
                extra.push(e);
                // function scope only where the entry itself is function-scoped (allocations)
                if !k.origin_fn.is_empty() {
                    for f in fns.into_iter().filter(|f| !f.is_empty()) {
                        let mut e = k.clone();
                        e.origin = String::new();
                        e.origin_fn = f;
                        extra.push(e);
                    }
                }
            }
        }
    }
    known.extend(extra);
}

fn matches_known<'a>(known: &'a [Known], prop: &str, v: &Violation) -> Option<&'a Known> {
    // for allocation deaths the frame that called the allocating function is known too: a known
    // allocation stays known when its statement was moved into a helper function (one level)
    let caller_fn = v.msg.rfind("[caller=").map(|i| site_fn(v.msg[i + 8..].trim_end_matches(']'))).unwrap_or_default();
    known.iter().find(|k| {
        k.status == "open"
            && k.property == prop
            && k.class == v.class
            && ((!k.origin.is_empty() && k.origin == v.origin)
                || (!k.origin_fn.is_empty() && k.origin_fn == site_fn(&v.origin))
                || (v.class == "alloc" && !k.origin_fn.is_empty() && !caller_fn.is_empty() && k.origin_fn == caller_fn))
    })
}

// ------------------------------------------------------------------------------------------
// worker processes
// ------------------------------------------------------------------------------------------

pub enum Msg {
    Result(Box<RunResult>),
    Death { idx: u64, class: String, origin: String, client: String, msg: String },
    HarnessError(String),
}

struct Proc {
    child: Child,
    stdin: ChildStdin,
    stdout: BufReader<ChildStdout>,
}

/// Stack of the processes that run calamine: 2 MiB, the default of `std::thread` (and of the
/// usual thread pools), not the 8 MiB of a main thread — recursion that follows the nesting of
/// the input then shows as a crash at the depth at which it would in a library user's worker
/// thread.  The limit is applied between fork and exec, so it sizes the child's main thread.
pub const STACK_BYTES: u64 = 2 << 20;

fn limit_stack(cmd: &mut Command) -> &mut Command {
    use std::os::unix::process::CommandExt;
    unsafe {
        cmd.pre_exec(|| {
            let lim = libc::rlimit { rlim_cur: STACK_BYTES, rlim_max: STACK_BYTES };
            if libc::setrlimit(libc::RLIMIT_STACK, &lim) != 0 {
                return Err(std::io::Error::last_os_error());
            }
            Ok(())
        })
    }
}

fn spawn_worker(prop: &str, tier: Tier, seed: u64) -> Result<Proc, String> {
    let mut cmd = Command::new(self_exe());
    let mut child = limit_stack(&mut cmd)
        .args(["worker", prop, tier.name(), &seed.to_string()])
        .stdin(Stdio::piped())
        .stdout(Stdio::piped())
        .stderr(Stdio::null())
        .spawn()
        .map_err(|e| format!("spawn worker: {}", e))?;
    let stdin = child.stdin.take().unwrap();
    let stdout = BufReader::with_capacity(1 << 16, child.stdout.take().unwrap());
    Ok(Proc { child, stdin, stdout })
}

/// Parse an `A`/`H` death line.
fn parse_death(line: &str) -> Option<(u64, String, String, String, String)> {
    let (tag, rest) = line.split_at(1);
    let rest = rest.trim_start();
    match tag {
        "A" => {
            let mut it = rest.splitn(4, ' ');
            let idx = it.next()?.parse().ok()?;
            let size: u64 = it.next()?.parse().ok()?;
            let live: u64 = it.next()?.parse().ok()?;
            let sites = it.next().unwrap_or("?");
            let mut s = sites.splitn(3, '\t');
            let origin = s.next().unwrap_or("?").to_string();
            let client = s.next().unwrap_or("").trim_end().to_string();
            let caller = s.next().unwrap_or("").trim_end().to_string();
            Some((idx, "alloc".into(), origin, client, format!("allocation of {} bytes would bring the live heap to {} bytes, over the proportional budget [caller={}]", size, live, caller)))
        }
        "H" => {
            let mut it = rest.splitn(2, ' ');
            let idx = it.next()?.trim().parse().ok()?;
            let sites = it.next().unwrap_or("");
            let mut s = sites.splitn(2, '\t');
            let origin = s.next().unwrap_or("").trim().to_string();
            let client = s.next().unwrap_or("").trim_end().to_string();
            let origin = if origin.is_empty() || origin == "?" { "?".to_string() } else { site_fn(&origin) };
            Some((idx, "hang".into(), origin, client, "CPU-time budget exceeded".into()))
        }
        _ => None,
    }
}

/// One driver thread per worker process: feeds chunks, forwards results, attributes deaths to
/// the last `S` line and respawns at the next index.
/// Set when a batch has seen so many time-outs or crashes that running on would take hours (a
/// change that makes most runs of one format spin costs a full CPU budget per run): the workers
/// stop, and the batch reports what it has.
static ABORT_BATCH: std::sync::atomic::AtomicBool = std::sync::atomic::AtomicBool::new(false);
const MAX_SLOW_DEATHS: u64 = 64;

fn worker_thread(prop: String, tier: Tier, seed: u64, queue: Arc<Mutex<Vec<(u64, u64)>>>, tx: mpsc::Sender<Msg>) {
    let mut proc: Option<Proc> = None;
    loop {
        if ABORT_BATCH.load(std::sync::atomic::Ordering::Relaxed) {
            break;
        }
        let chunk = { queue.lock().unwrap().pop() };
        let (mut a, b) = match chunk {
            Some(c) => c,
            None => break,
        };
        while a < b {
            if ABORT_BATCH.load(std::sync::atomic::Ordering::Relaxed) {
                break;
            }
            if proc.is_none() {
                match spawn_worker(&prop, tier, seed) {
                    Ok(p) => proc = Some(p),
                    Err(e) => {
                        let _ = tx.send(Msg::HarnessError(e));
                        return;
                    }
                }
            }
            let p = proc.as_mut().unwrap();
            if writeln!(p.stdin, "{} {}", a, b).and_then(|_| p.stdin.flush()).is_err() {
                let _ = tx.send(Msg::HarnessError("worker stdin closed".into()));
                return;
            }
            let mut last_started: Option<u64> = None;
            let mut death: Option<(u64, String, String, String, String)> = None;
            let mut done = false;
            let mut line = String::new();
            loop {
                line.clear();
                match p.stdout.read_line(&mut line) {
                    Ok(0) | Err(_) => break,
                    Ok(_) => {}
                }
                let l = line.trim_end_matches('\n');
                if let Some(rest) = l.strip_prefix("S ") {
                    last_started = rest.trim().parse().ok();
                } else if let Some(rest) = l.strip_prefix("R ") {
                    match serde_json::from_str::<RunResult>(rest) {
                        Ok(r) => {
                            last_started = None;
                            a = r.idx + 1;
                            let _ = tx.send(Msg::Result(Box::new(r)));
                        }
                        Err(e) => {
                            let _ = tx.send(Msg::HarnessError(format!("bad result line: {}", e)));
                            return;
                        }
                    }
                } else if l == "D" {
                    done = true;
                    break;
                } else if l.starts_with("A ") || l.starts_with("H ") {
                    death = parse_death(l);
                }
            }
            if done {
                a = b;
                continue;
            }
            // the worker died
            let status = p.child.wait().ok();
            proc = None;
            let idx = match death.as_ref().map(|d| d.0).or(last_started) {
                Some(i) => i,
                None => {
                    let _ = tx.send(Msg::HarnessError(format!("worker died outside a run (status {:?})", status)));
                    return;
                }
            };
            if death.is_none() && status.and_then(|s| s.code()) == Some(101) {
                // exit code 101 = a Rust panic that was not caught: calamine's panics are caught by the
                // runner, so this is a bug of the harness, never a verdict about calamine
                let _ = tx.send(Msg::HarnessError(format!("worker panicked outside a guarded call during run {} (harness bug)", idx)));
                return;
            }
            let (class, origin, client, msg) = match death {
                Some((_, c, o, cl, m)) => (c, o, cl, m),
                None => ("crash".to_string(), "process-death".to_string(), String::new(), format!("worker process died during the run: {:?}", status)),
            };
            let _ = tx.send(Msg::Death { idx, class, origin, client, msg });
            a = idx + 1;
        }
    }
    if let Some(mut p) = proc {
        drop(p.stdin);
        let _ = p.child.wait();
    }
}

/// Run one spec in a fresh process.  Returns the result, or the death as a violation.
pub fn exec_spec_isolated(spec: &RunSpec, cpu_scale: i64) -> Result<RunResult, String> {
    let mut cmd = Command::new(self_exe());
    let mut child = limit_stack(&mut cmd)
        .args(["exec-spec", &cpu_scale.to_string()])
        .stdin(Stdio::piped())
        .stdout(Stdio::piped())
        .stderr(Stdio::null())
        .spawn()
        .map_err(|e| format!("spawn exec-spec: {}", e))?;
    {
        let mut si = child.stdin.take().unwrap();
        si.write_all(serde_json::to_string(spec).unwrap().as_bytes()).map_err(|e| e.to_string())?;
    }
    let out = child.wait_with_output().map_err(|e| e.to_string())?;
    let text = String::from_utf8_lossy(&out.stdout);
    let mut started = false;
    for l in text.lines() {
        if l.starts_with("S ") {
            started = true;
        } else if let Some(rest) = l.strip_prefix("R ") {
            return serde_json::from_str::<RunResult>(rest).map_err(|e| format!("bad result: {}", e));
        } else if l.starts_with("A ") || l.starts_with("H ") {
            if let Some((_, class, origin, client, msg)) = parse_death(l) {
                return Ok(RunResult {
                    violations: vec![Violation { class, origin, client, msg, op: -1, detail: String::new() }],
                    spec: Some(spec.clone()),
                    outcome: "death".into(),
                    ..Default::default()
                });
            }
        }
    }
    if started {
        return Ok(RunResult {
            violations: vec![Violation {
                class: "crash".into(),
                origin: "process-death".into(),
                client: String::new(),
                msg: format!("process died: {:?}", out.status),
                op: -1,
                detail: String::new(),
            }],
            spec: Some(spec.clone()),
            outcome: "death".into(),
            ..Default::default()
        });
    }
    Err(format!("exec-spec failed before starting: {:?}", out.status))
}

fn fetch_spec(prop: &str, tier: Tier, seed: u64, idx: u64) -> Option<RunSpec> {
    for gen_only in [false, true] {
        let mut args = vec!["spec".to_string(), prop.to_string(), tier.name().to_string(), seed.to_string(), idx.to_string()];
        if gen_only {
            args.push("--gen-only".into());
        }
        let out = Command::new(self_exe()).args(&args).stderr(Stdio::null()).output().ok()?;
        let text = String::from_utf8_lossy(&out.stdout);
        for l in text.lines() {
            if let Some(rest) = l.strip_prefix("P ") {
                if let Ok(s) = serde_json::from_str::<RunSpec>(rest) {
                    return Some(s);
                }
            }
        }
    }
    None
}

// ------------------------------------------------------------------------------------------
// minimisation
// ------------------------------------------------------------------------------------------

fn still_fails(spec: &RunSpec, want: &Violation, budget: &mut u32) -> Option<Violation> {
    if *budget == 0 {
        return None;
    }
    *budget -= 1;
    let r = exec_spec_isolated(spec, 1).ok()?;
    r.violations.into_iter().find(|v| v.class == want.class && v.origin == want.origin)
}

/// Shrink the fault set, the history and the delivery deviations while the same violation
/// class and site persist (DESIGN §2.7).
pub fn minimise(spec: &RunSpec, want: &Violation) -> (RunSpec, Violation, u32) {
    let mut best = spec.clone();
    let mut bestv = want.clone();
    let mut budget: u32 = 160;
    let total = budget;
    match still_fails(&best, want, &mut budget) {
        Some(v) => bestv = v,
        None => return (best, bestv, total - budget), // does not reproduce in isolation: leave as is
    }
    loop {
        let mut progress = false;
        // 1. stored faults: drop one at a time
        let mut i = 0;
        while best.stored_faults.len() > 1 && i < best.stored_faults.len() {
            let mut c = best.clone();
            c.stored_faults.remove(i);
            if let Some(v) = still_fails(&c, want, &mut budget) {
                best = c;
                bestv = v;
                progress = true;
            } else {
                i += 1;
            }
        }
        // 2. delivery: error faults, EINTR, chopping
        if !best.delivery.faults.is_empty() {
            let mut c = best.clone();
            c.delivery.faults.clear();
            if let Some(v) = still_fails(&c, want, &mut budget) {
                best = c;
                bestv = v;
                progress = true;
            } else {
                let mut i = 0;
                while best.delivery.faults.len() > 1 && i < best.delivery.faults.len() {
                    let mut c = best.clone();
                    c.delivery.faults.remove(i);
                    if let Some(v) = still_fails(&c, want, &mut budget) {
                        best = c;
                        bestv = v;
                        progress = true;
                    } else {
                        i += 1;
                    }
                }
            }
        }
        if best.delivery.eintr_ppk != 0 {
            let mut c = best.clone();
            c.delivery.eintr_ppk = 0;
            if let Some(v) = still_fails(&c, want, &mut budget) {
                best = c;
                bestv = v;
                progress = true;
            }
        }
        if best.delivery.chop != crate::simdisk::Chop::Full {
            let mut c = best.clone();
            c.delivery.chop = crate::simdisk::Chop::Full;
            if let Some(v) = still_fails(&c, want, &mut budget) {
                best = c;
                bestv = v;
                progress = true;
            }
        }
        // 3. history: cut after the failing call, then drop earlier calls one at a time
        if bestv.op >= 1 && (bestv.op as usize) < best.ops.len() && !best.ops.iter().any(|o| matches!(o, crate::wb::Op::Sweep)) {
            let mut c = best.clone();
            c.ops.truncate(bestv.op as usize);
            if let Some(v) = still_fails(&c, want, &mut budget) {
                best = c;
                bestv = v;
                progress = true;
            }
        }
        if !best.ops.iter().any(|o| matches!(o, crate::wb::Op::Sweep)) {
            let mut i = best.ops.len();
            while i > 0 && best.ops.len() > 1 {
                i -= 1;
                let mut c = best.clone();
                c.ops.remove(i);
                // placed faults refer to call numbers: shift those after the removed call
                for f in c.delivery.faults.iter_mut() {
                    if f.op as usize > i + 1 {
                        f.op -= 1;
                    } else if f.op as usize == i + 1 {
                        f.op = u32::MAX; // its call is gone
                    }
                }
                c.delivery.faults.retain(|f| f.op != u32::MAX);
                if let Some(v) = still_fails(&c, want, &mut budget) {
                    best = c;
                    bestv = v;
                    progress = true;
                }
                if budget == 0 {
                    break;
                }
            }
        }
        // 4. arguments: header rows towards small values, sheet indices towards 0
        for i in 0..best.ops.len() {
            if budget == 0 {
                break;
            }
            let cands: Vec<crate::wb::Op> = match &best.ops[i] {
                crate::wb::Op::SetHeader(Some(n)) if *n > 1 => {
                    let mut c = vec![crate::wb::Op::SetHeader(Some(0)), crate::wb::Op::SetHeader(Some(1))];
                    if *n > 4 {
                        c.push(crate::wb::Op::SetHeader(Some(n / 2)));
                    }
                    c
                }
                crate::wb::Op::Range(crate::wb::SheetArg::Idx(k)) if *k > 0 => vec![crate::wb::Op::Range(crate::wb::SheetArg::Idx(0))],
                crate::wb::Op::RangeRef(crate::wb::SheetArg::Idx(k)) if *k > 0 => vec![crate::wb::Op::RangeRef(crate::wb::SheetArg::Idx(0))],
                _ => vec![],
            };
            for cand in cands {
                let mut c = best.clone();
                c.ops[i] = cand;
                if let Some(v) = still_fails(&c, want, &mut budget) {
                    best = c;
                    bestv = v;
                    progress = true;
                    break;
                }
            }
        }
        if !progress || budget == 0 {
            break;
        }
    }
    (best, bestv, total - budget)
}

#[derive(Serialize, Deserialize)]
pub struct ReplayFile {
    pub property: String,
    pub seed: u64,
    pub run: u64,
    pub tier: String,
    pub spec: RunSpec,
    pub expect: Violation,
    pub minimised_with_executions: u32,
    pub original_calls: usize,
    pub original_stored_faults: usize,
}

fn write_replay(dir: &str, prop: &str, seed: u64, tier: Tier, idx: u64, orig: &RunSpec, spec: &RunSpec, v: &Violation, used: u32) -> String {
    let _ = std::fs::create_dir_all(dir);
    let h = crate::prng::hbytes(format!("{}|{}|{}", v.class, v.origin, serde_json::to_string(spec).unwrap_or_default()).as_bytes());
    let path = format!("{}/{}-{}-{:08x}.json", dir, prop, seed, (h >> 32) as u32);
    let rf = ReplayFile {
        property: prop.to_string(),
        seed,
        run: idx,
        tier: tier.name().into(),
        spec: spec.clone(),
        expect: v.clone(),
        minimised_with_executions: used,
        original_calls: orig.ops.len(),
        original_stored_faults: orig.stored_faults.len(),
    };
    let _ = std::fs::write(&path, serde_json::to_string_pretty(&rf).unwrap());
    path
}

pub fn replay_main(path: &str) -> i32 {
    let text = match std::fs::read_to_string(path) {
        Ok(t) => t,
        Err(e) => {
            eprintln!("harness error: {}: {}", path, e);
            return 2;
        }
    };
    let rf: ReplayFile = match serde_json::from_str(&text) {
        Ok(r) => r,
        Err(e) => {
            eprintln!("harness error: {}: {}", path, e);
            return 2;
        }
    };
    let r = match exec_spec_isolated(&rf.spec, 1) {
        Ok(r) => r,
        Err(e) => {
            eprintln!("harness error: {}", e);
            return 2;
        }
    };
    if let Some(s) = &r.sample {
        println!("execution: {}", serde_json::to_string_pretty(s).unwrap_or_default());
    }
    for v in &r.violations {
        println!("observed: class={} origin={} client={} msg={} call={} {}", v.class, v.origin, v.client, v.msg, v.op, v.detail);
    }
    let hit = r.violations.iter().any(|v| v.class == rf.expect.class && v.origin == rf.expect.origin);
    if hit {
        println!("REPRODUCED class={} origin={}", rf.expect.class, rf.expect.origin);
        println!("VIOLATION property={} replay={}", rf.property, path);
        1
    } else {
        println!("NOT-REPRODUCED expected class={} origin={}", rf.expect.class, rf.expect.origin);
        0
    }
}

// ------------------------------------------------------------------------------------------
// the check
// ------------------------------------------------------------------------------------------

#[derive(Default)]
struct Agg {
    evaluations: u64,
    execs: HashSet<u64>,
    nontrivial: HashSet<u64>,
    io_sigs: HashSet<u64>,
    events: u64,
    bytes: u64,
    calls: u64,
    fired: [u64; 6],
    stored: u64,
    consumed: u64,
    kinds: BTreeMap<String, u64>,
    outcomes: BTreeMap<String, u64>,
    probes: BTreeMap<String, u64>,
    phases: BTreeMap<String, u64>,
    peak_max: u64,
    cpu_us: u64,
    dets: BTreeMap<u64, u64>,
    viols: BTreeMap<(String, String), (u64, Violation, Option<RunSpec>, u64)>,
    deaths: u64,
}

pub struct CheckOutcome {
    pub exit: i32,
    pub dets: BTreeMap<u64, u64>,
}

pub fn level_of(prop: &str) -> &'static str {
    match prop {
        "C06" => "fault_enumeration",
        _ => "exploration",
    }
}

pub fn run_batch(prop: &str, tier: Tier, seed: u64, workers: usize, limit: Option<u64>, quiet: bool) -> Result<(AggOut, f64), String> {
    run_batch_strided(prop, tier, seed, workers, limit, quiet, 1)
}

/// `stride > 1`: run indices 0, stride, 2*stride, … (a sample across the whole index space).
pub fn run_batch_strided(prop: &str, tier: Tier, seed: u64, workers: usize, limit: Option<u64>, quiet: bool, stride: u64) -> Result<(AggOut, f64), String> {
    let t0 = Instant::now();
    // total number of runs: ask a worker-side context (needs the corpus)
    let space = {
        let mut ctx = crate::worker::make_ctx_for(prop, tier, seed)?;
        crate::worker::total_runs(prop, &mut ctx)?
    };
    let mut chunks = Vec::new();
    let total;
    if stride > 1 {
        let n = limit.unwrap_or(u64::MAX).min((space + stride - 1) / stride);
        for k in 0..n {
            chunks.push((k * stride, k * stride + 1));
        }
        total = n;
    } else {
        total = limit.map_or(space, |l| l.min(space));
        let chunk = (total / (workers as u64 * 12)).clamp(20, 2000);
        let mut a = 0;
        while a < total {
            let b = (a + chunk).min(total);
            chunks.push((a, b));
            a = b;
        }
    }
    if total == 0 {
        return Err(format!("{}: nothing to run", prop));
    }
    chunks.reverse(); // pop() takes from the end: hand out in ascending order
    let queue = Arc::new(Mutex::new(chunks));
    let (tx, rx) = mpsc::channel::<Msg>();
    let mut handles = Vec::new();
    for _ in 0..workers {
        let q = queue.clone();
        let tx = tx.clone();
        let p = prop.to_string();
        handles.push(std::thread::spawn(move || worker_thread(p, tier, seed, q, tx)));
    }
    drop(tx);
    let mut agg = Agg::default();
    let mut last_report = Instant::now();
    let mut slow_deaths = 0u64;
    ABORT_BATCH.store(false, std::sync::atomic::Ordering::Relaxed);
    for msg in rx {
        match msg {
            Msg::HarnessError(e) => return Err(e),
            Msg::Result(r) => {
                let r = *r;
                agg.evaluations += 1;
                agg.execs.insert(r.exec);
                if r.nontrivial {
                    agg.nontrivial.insert(r.exec);
                }
                agg.io_sigs.insert(r.io);
                agg.events += r.events;
                agg.bytes += r.bytes;
                agg.calls += r.ops as u64;
                for i in 0..6 {
                    agg.fired[i] += r.fired[i];
                }
                agg.stored += r.stored as u64;
                agg.consumed += r.consumed as u64;
                for k in &r.kinds {
                    *agg.kinds.entry(k.clone()).or_default() += 1;
                }
                *agg.outcomes.entry(r.outcome.clone()).or_default() += 1;
                for p in &r.probes {
                    *agg.probes.entry(p.clone()).or_default() += 1;
                }
                *agg.phases.entry(if r.phase.is_empty() { "-".to_string() } else { r.phase.clone() }).or_default() += 1;
                agg.peak_max = agg.peak_max.max(r.peak);
                agg.cpu_us += r.cpu_us;
                agg.dets.insert(r.idx, r.det);
                for v in &r.violations {
                    let e = agg.viols.entry(v.key()).or_insert_with(|| (r.idx, v.clone(), r.spec.clone(), 0));
                    e.3 += 1;
                    if r.idx < e.0 {
                        *e = (r.idx, v.clone(), r.spec.clone(), e.3);
                    }
                }
            }
            Msg::Death { idx, class, origin, client, msg } => {
                agg.evaluations += 1;
                agg.deaths += 1;
                if class == "hang" || class == "crash" {
                    slow_deaths += 1;
                    if slow_deaths == MAX_SLOW_DEATHS {
                        eprintln!("[{}] {} runs timed out or crashed: stopping the batch early, reporting what was found", prop, slow_deaths);
                        ABORT_BATCH.store(true, std::sync::atomic::Ordering::Relaxed);
                    }
                }
                *agg.outcomes.entry(format!("death:{}", class)).or_default() += 1;
                agg.dets.insert(idx, crate::prng::hbytes(format!("{}|{}", class, origin).as_bytes()));
                let v = Violation { class, origin, client, msg, op: -1, detail: String::new() };
                let e = agg.viols.entry(v.key()).or_insert_with(|| (idx, v.clone(), None, 0));
                e.3 += 1;
                if idx < e.0 {
                    *e = (idx, v.clone(), None, e.3);
                }
            }
        }
        if !quiet && last_report.elapsed().as_secs() >= 20 {
            eprintln!("[{}] {}/{} runs, {} distinct violation keys, {:.0}s", prop, agg.evaluations, total, agg.viols.len(), t0.elapsed().as_secs_f64());
            last_report = Instant::now();
        }
    }
    for h in handles {
        let _ = h.join();
    }
    if ABORT_BATCH.load(std::sync::atomic::Ordering::Relaxed) {
        // an aborted batch is a failed check (the violations it collected are reported), not a harness error
        let done = agg.evaluations;
        return Ok((AggOut { a: agg, total: done.max(1) }, t0.elapsed().as_secs_f64()));
    }
    if agg.evaluations != total {
        return Err(format!("{}: {} of {} runs reported", prop, agg.evaluations, total));
    }
    Ok((AggOut { a: agg, total }, t0.elapsed().as_secs_f64()))
}

pub struct AggOut {
    a: Agg,
    pub total: u64,
}

impl AggOut {
    pub fn dets(&self) -> &BTreeMap<u64, u64> {
        &self.a.dets
    }
}

pub fn check_main(prop: &str, tier: Tier, seed: u64) -> i32 {
    let workers = std::env::var("VERIF_WORKERS").ok().and_then(|w| w.parse().ok()).unwrap_or_else(|| std::thread::available_parallelism().map(|n| n.get()).unwrap_or(4).min(16));
    let limit = std::env::var("VERIF_LIMIT").ok().and_then(|w| w.parse().ok());
    let known = match load_known() {
        Ok(k) => k,
        Err(e) => {
            eprintln!("harness error: {}", e);
            return 2;
        }
    };
    let mut known = known;
    rekey_known(&mut known, prop);
    println!("VERIF_SEED={} property={} tier={} workers={}", seed, prop, tier.name(), workers);
    let (out, wall) = match run_batch(prop, tier, seed, workers, limit, false) {
        Ok(x) => x,
        Err(e) => {
            eprintln!("harness error: {}", e);
            return 2;
        }
    };
    let agg = out.a;
    let mut new_viol: Vec<(u64, Violation, Option<RunSpec>, u64)> = Vec::new();
    let mut known_hit: BTreeMap<String, (String, u64)> = BTreeMap::new();
    let mut unconfirmed_slow = 0u64;
    for (_k, (idx, v, spec, count)) in agg.viols.iter() {
        if let Some(k) = matches_known(&known, prop, v) {
            let id = if k.origin.is_empty() { k.origin_fn.clone() } else { k.origin.clone() };
            // one line per finding, whichever of its keys (static or re-keyed) matched
            let _ = &id;
            let first = known.iter().find(|x| x.what == k.what).map(|x| if x.origin.is_empty() { x.origin_fn.clone() } else { x.origin.clone() }).unwrap_or_default();
            let e = known_hit.entry(format!("{}|{}", k.class, first)).or_insert((k.what.clone(), 0));
            e.1 += count;
            continue;
        }
        new_viol.push((*idx, v.clone(), spec.clone(), *count));
    }
    for (id, (what, count)) in &known_hit {
        println!("KNOWN-FINDING: property={} {} site={} (hit by {} runs)", prop, what, id, count);
    }
    // new violations: get the spec, confirm hangs, minimise, write replay files
    let mut reported: Vec<serde_json::Value> = Vec::new();
    let mut exit = 0;
    new_viol.sort_by_key(|x| x.0);
    let mut slow_minimised = 0;
    let replay_dir = format!("{}/replays", verif_root());
    for (n, (idx, v, spec, count)) in new_viol.iter().enumerate() {
        let spec = spec.clone().or_else(|| fetch_spec(prop, tier, seed, *idx));
        let spec = match spec {
            Some(s) => s,
            None => {
                println!("VIOLATION property={} replay=<none: run {} died and its spec could not be regenerated> class={} origin={}", prop, idx, v.class, v.origin);
                exit = 1;
                continue;
            }
        };
        if v.class == "hang" || v.class == "superlinear" {
            // the verdicts not derived from a counter: confirm twice (a hang with a doubled budget)
            // (a growth ratio measured while sixteen workers share the memory bus can be three times
            // what it is on a quiet machine: a `superlinear` verdict needs three quiet reproductions)
            let need = if v.class == "superlinear" { 3 } else { 2 };
            let mut confirmed = 0;
            for _ in 0..need {
                if let Ok(r) = exec_spec_isolated(&spec, 2) {
                    if r.violations.iter().any(|x| x.class == v.class) {
                        confirmed += 1;
                    }
                }
            }
            if confirmed < need {
                unconfirmed_slow += 1;
                continue;
            }
        }
        // every execution of a time-out costs a full CPU budget: minimise the first two of them only
        let slow = v.class == "hang" || v.class == "superlinear";
        if slow {
            slow_minimised += 1;
        }
        let (mspec, mv, used) = if n < 12 && (!slow || slow_minimised <= 2) { minimise(&spec, v) } else { (spec.clone(), v.clone(), 0) };
        // a violation found under a death has no site of its own for `hang`; re-match known findings with the minimised one
        if let Some(k) = matches_known(&known, prop, &mv) {
            println!("KNOWN-FINDING: property={} {} site={}", prop, k.what, if k.origin.is_empty() { &k.origin_fn } else { &k.origin });
            continue;
        }
        let path = write_replay(&replay_dir, prop, seed, tier, *idx, &spec, &mspec, &mv, used);
        println!(
            "violation: class={} origin={} client={} msg={} runs={} first_run={} file={} calls={} stored_faults={} :: {}",
            mv.class,
            mv.origin,
            mv.client,
            mv.msg,
            count,
            idx,
            mspec.file,
            mspec.ops.len(),
            mspec.stored_faults.len(),
            crate::wb::clip(&mv.detail, 300)
        );
        println!("VIOLATION property={} replay={}", prop, path);
        reported.push(json!({"class": mv.class, "origin": mv.origin, "client": mv.client, "msg": mv.msg, "runs": count, "replay": path}));
        exit = 1;
    }
    // samples: re-execute a few runs verbosely
    let mut samples = Vec::new();
    for k in 0..3u64 {
        let idx = (out.total / 3) * k + (seed % 7).min(out.total.saturating_sub(1) / 3);
        if let Some(spec) = fetch_spec(prop, tier, seed, idx.min(out.total - 1)) {
            if let Ok(r) = exec_spec_isolated(&spec, 1) {
                if let Some(s) = r.sample {
                    samples.push(json!({"run": idx, "case": s}));
                }
            }
        }
    }
    if samples.is_empty() {
        samples.push(json!({"note": "sample re-execution failed"}));
    }
    let runs_per_hour = agg.evaluations as f64 / wall.max(0.001) * 3600.0;
    let fault_names = ["short_reads", "eintr", "eio_transient", "eio_sticky", "seek_error", "reads_on_dead_disk"];
    let fired: serde_json::Map<String, serde_json::Value> = fault_names.iter().enumerate().map(|(i, n)| (n.to_string(), json!(agg.fired[i]))).collect();
    let evidence = json!({
        "property_id": prop,
        "tier": tier.name(),
        "seed": seed,
        "level": level_of(prop),
        "wall_s": wall,
        "violations": reported.len(),
        "coverage": {
            "evaluations": agg.evaluations,
            "distinct_nontrivial": agg.nontrivial.len(),
            "rule": rule_text(prop),
            "samples": samples,
            "exhaustive": false,
            "distinct_executions": agg.execs.len(),
            "distinct_io_signatures": agg.io_sigs.len(),
            "runs_per_hour": runs_per_hour,
            "seeds_per_hour": runs_per_hour,
            "simulated_time": {"unit": "logical I/O events (calamine reads no clock)", "io_events": agg.events, "bytes_delivered": agg.bytes, "api_calls": agg.calls},
            "delivery_faults_fired": fired,
            "stored_faults": {"applied": agg.stored, "consumed": agg.consumed, "by_kind": agg.kinds},
            "outcomes": agg.outcomes,
            "rare_condition_probes": agg.probes,
            "runs_by_phase": agg.phases,
            "worker_deaths": agg.deaths,
            "unconfirmed_slow": unconfirmed_slow,
            "max_peak_heap_bytes": agg.peak_max,
            "cpu_seconds_in_runs": agg.cpu_us as f64 / 1e6,
            "known_findings_hit": known_hit.iter().map(|(k, v)| json!({"site": k, "what": v.0, "runs": v.1})).collect::<Vec<_>>(),
            "new_violations": reported,
            "components": {
                "real": ["calamine (all of /repo/src, built from the working tree)", "zip", "flate2/miniz_oxide", "crc32fast", "quick-xml", "encoding_rs", "codepage", "byteorder", "atoi_simd", "fast-float2"],
                "stub": ["storage device behind Read+Seek(+Clone): SimDisk", "clock: logical event counter"],
                "instrumented": ["global allocator: system allocator wrapped by a counting/budgeting layer"],
            },
        },
        "assumptions": assumptions(prop),
    });
    let ev_path = format!("{}/evidence/{}.json", verif_root(), prop);
    let _ = std::fs::create_dir_all(format!("{}/evidence", verif_root()));
    if let Err(e) = std::fs::write(&ev_path, serde_json::to_string_pretty(&evidence).unwrap()) {
        eprintln!("harness error: cannot write {}: {}", ev_path, e);
        return 2;
    }
    println!(
        "{} {}: {} runs in {:.1}s ({:.0}/h), {} distinct non-trivial, {} new violation(s), {} known finding(s), evidence {}",
        prop,
        tier.name(),
        agg.evaluations,
        wall,
        runs_per_hour,
        agg.nontrivial.len(),
        reported.len(),
        known_hit.len(),
        ev_path
    );
    exit
}

fn rule_text(prop: &str) -> &'static str {
    match prop {
        "C07" => "run i: seed_i = mix(VERIF_SEED,'C07',i); file = corpus[i mod n]; entry = own reader or auto-detection; a seeded history of 3-40 calls from the format's alphabet; delivery configuration A (short reads), B (+EINTR) or C (+transient/sticky EIO, seek errors placed inside calls by a dry pass). Every call is compared with the same call on a fresh reader over a perfect disk. distinct = distinct hash of (file, entry, calls, delivery); non-trivial = lazy formats: >=2 calls that performed I/O and >=1 delivery deviation fired; eager formats: >=2 checked calls and a deviation fired during open.",
        "C08" => "run i: seed_i = mix(VERIF_SEED,'C08',i); file = corpus[i mod n]; history of header-row changes (n drawn relative to the sheet's default range: before, at start, interior, gap rows, end, end+1, far beyond, u32::MAX) and range reads, interleaved with other calls; delivery configuration A/B/C. Every range read under Row(n) is checked cell by cell against the property's text using the default-option range. distinct = distinct hash of (file, entry, calls, delivery); non-trivial = at least one checked read under an explicit header row and a delivery deviation fired (lazy formats: and >=2 I/O calls).",
        "C06" => "sweeps enumerate, per fixture, every stored-content fault of the stated finite spaces (truncations, compound-file header/FAT/DIFAT/directory sites x value set, record headers x tamper set, numeric tokens x extremes, part-level faults) with full-length delivery; the seeded search draws 1-4 faults across layers with varied delivery. Each faulted image is opened through its own reader and one other entry and the bounded API sweep is run. distinct = distinct hash of (file, entry, faults, delivery); non-trivial = at least one injected stored fault was consumed (its bytes were delivered to the reader) or a delivery error fired.",
        _ => "",
    }
}

fn assumptions(prop: &str) -> Vec<&'static str> {
    let mut v = vec![
        "corpus-bounded: every run starts from one of the fixture files under /repo/tests",
        "sampling, not proof: a clean batch is evidence",
        "dependencies (zip, quick-xml, ...) run real code at the versions of /repo/Cargo.lock",
    ];
    match prop {
        "C07" => v.push("the reference model is a fresh reader of the same build over a perfect disk: decides purity and agreement, not correctness of decoding"),
        "C08" => v.push("the default-option range of a fresh reader over a perfect disk is taken as the sheet's content"),
        "C06" => v.push("scaling runs compare the CPU time of one amplified input at 1/4, 1/2 and 1/1 of its generated items (verdict: full size >= 100 ms and more than 10 x the quarter size, confirmed by three isolated replays after the batch, on a quiet machine); the CPU-time watchdog verdict is confirmed by two replays with a doubled budget; proportionality constants: heap <= 64 MiB + 512 x input, I/O events <= 64 x input + 1e5"),
        _ => {}
    }
    v
}

/// `triage`: run the batch and dump every violation key with an example, for a human to
/// decide between repair and known finding.  Never used by a registered check.
pub fn triage_main(prop: &str, tier: Tier, seed: u64, out_path: &str) -> i32 {
    let workers = std::thread::available_parallelism().map(|n| n.get()).unwrap_or(4).min(16);
    let limit = std::env::var("VERIF_LIMIT").ok().and_then(|w| w.parse().ok());
    let (out, wall) = match run_batch(prop, tier, seed, workers, limit, false) {
        Ok(x) => x,
        Err(e) => {
            eprintln!("harness error: {}", e);
            return 2;
        }
    };
    let mut lines = Vec::new();
    for ((class, origin), (idx, v, spec, count)) in out.a.viols.iter() {
        let why: Vec<String> = spec.as_ref().map(|s| s.stored_faults.iter().map(|f| f.why.clone()).collect()).unwrap_or_default();
        lines.push(json!({"property": prop, "class": class, "origin": origin, "client": v.client, "msg": v.msg, "runs": count, "first_run": idx,
            "file": spec.as_ref().map(|s| s.file.clone()), "entry": spec.as_ref().map(|s| s.entry.name()), "why": why, "detail": crate::wb::clip(&v.detail, 200)}).to_string());
    }
    let _ = std::fs::write(out_path, lines.join("\n") + "\n");
    println!("triage {} {} seed {}: {} runs in {:.1}s, {} keys -> {}", prop, tier.name(), seed, out.a.evaluations, wall, lines.len(), out_path);
    0
}

// ------------------------------------------------------------------------------------------
// self tests
// ------------------------------------------------------------------------------------------

/// Determinism: the same seeds at different worker counts (hence different processes, chunking
/// and predecessors) must give identical per-run hashes.
pub fn selftest_determinism(props: &[&str], n: u64) -> i32 {
    let mut bad = 0;
    for prop in props {
        let mut base: Option<BTreeMap<u64, u64>> = None;
        for (round, w) in [16usize, 3, 1, 16].iter().enumerate() {
            let seed = 1;
            let lim = if *w == 1 { n.min(400) } else { n };
            // C06's index space starts with thousands of near-identical truncations: sample it
            let stride = if *prop == "C06" { 37 } else { 1 };
            match run_batch_strided(prop, Tier::Quick, seed, *w, Some(lim), true, stride) {
                Ok((out, wall)) => {
                    let d = out.dets().clone();
                    println!("determinism {} round {} workers={} runs={} wall={:.1}s", prop, round, w, d.len(), wall);
                    match &base {
                        None => base = Some(d),
                        Some(b) => {
                            let mut diffs = 0;
                            for (k, v) in &d {
                                if b.get(k) != Some(v) {
                                    if diffs < 5 {
                                        println!("  DIVERGENCE {} run {}: {:016x} vs {:016x}", prop, k, v, b.get(k).copied().unwrap_or(0));
                                    }
                                    diffs += 1;
                                }
                            }
                            if diffs > 0 {
                                println!("  {} divergent runs", diffs);
                                bad += 1;
                            }
                        }
                    }
                }
                Err(e) => {
                    eprintln!("harness error: {}", e);
                    return 2;
                }
            }
        }
    }
    if bad == 0 {
        println!("determinism: OK");
        0
    } else {
        1
    }
}

#[allow(dead_code)]
fn unused(_: HashMap<u8, u8>) {}

/// Sanity of the layer-1 machinery: rewriting a container *without* damage must give a file
/// that calamine reads exactly like the original (otherwise layer-1 faults would test the
/// writer, not the fault).
pub fn selftest_rewrite() -> i32 {
    use crate::corpus::Format;
    use crate::runner::{execute, ExecOpts, Limits};
    use crate::simdisk::Delivery;
    use crate::spec::{Edit, Layer, Pack, StoredFault};
    use crate::wb::{Entry, Op};
    crate::guard::install_panic_hook();
    let corpus = match crate::corpus::load() {
        Ok(c) => c,
        Err(e) => {
            eprintln!("harness error: {}", e);
            return 2;
        }
    };
    let mut bad = 0;
    let mut n = 0;
    for fx in &corpus {
        let mut parts = crate::image::Parts::new(&fx.bytes);
        let noop = |layer: Layer| StoredFault { layer, edit: Some(Edit::Insert { off: 0, bytes: vec![] }), why: "noop".into() };
        let mut variants: Vec<(String, Vec<StoredFault>)> = Vec::new();
        if let Some(z) = parts.zip.clone() {
            for pack in [Pack::Stored, Pack::Deflated] {
                let fs: Vec<StoredFault> = z.iter().map(|e| noop(Layer::ZipPart { part: e.name.clone(), pack })).collect();
                variants.push((format!("zip repack {:?}", pack), fs));
            }
            if z.iter().any(|e| e.name == "xl/vbaProject.bin") {
                variants.push(("zip+inner cfb rewrite".into(), vec![noop(Layer::ZipCfbStream { part: "xl/vbaProject.bin".into(), stream: "dir".into() })]));
            }
        } else if fx.format == Format::Xls {
            if let Some(l) = parts.cfb.clone() {
                if let Some(e) = l.dir.iter().find(|e| e.typ == 2) {
                    variants.push(("cfb rewrite".into(), vec![noop(Layer::CfbStream { stream: e.name.clone() })]));
                }
            }
        }
        let ops = vec![Op::Sweep];
        let run = |img: Vec<u8>| {
            let img = std::sync::Arc::new(img);
            let ex = execute(img.clone(), Entry::own(fx.format), Delivery::perfect(), &ops, Limits::for_input(img.len(), 60_000_000_000), &ExecOpts { capture: false, stop_on_panic: true, probes: &[], record_kinds: false });
            let mut s = crate::prng::Sig::new();
            ex.open.sig(&mut s);
            for r in &ex.ops {
                r.outcome.sig(&mut s);
            }
            (s.0, ex.open.brief(), ex.ops.len())
        };
        let base = run(fx.bytes.to_vec());
        for (what, fs) in variants {
            n += 1;
            match crate::image::build(&fx.bytes, &mut parts, None, &fs) {
                Ok(b) => {
                    let got = run(b.image);
                    if got.0 != base.0 {
                        println!("REWRITE-DIFF {} [{}]: original {:?} rewritten {:?}", fx.name, what, base, got);
                        bad += 1;
                    }
                }
                Err(e) => {
                    println!("REWRITE-FAILED {} [{}]: {}", fx.name, what, e);
                    bad += 1;
                }
            }
        }
    }
    println!("rewrite selftest: {} variants, {} differ", n, bad);
    if bad == 0 {
        0
    } else {
        1
    }
}

/// Debug helper: print a synthesized workbook's main part and what calamine reads from it.
pub fn dump_main(name: &str) -> i32 {
    use calamine::Reader;
    let fx = match crate::synth::make(name) {
        Some(f) => f,
        None => return 2,
    };
    let mut parts = crate::image::Parts::new(&fx.bytes);
    let main = if name.ends_with(".ods") { "content.xml".to_string() } else { "xl/worksheets/sheet1.xml".to_string() };
    if let Some(p) = parts.part(&main) {
        println!("{}", String::from_utf8_lossy(&p));
    }
    let cur = std::io::Cursor::new(fx.bytes.to_vec());
    match calamine::open_workbook_auto_from_rs(cur) {
        Ok(mut wb) => {
            for n in wb.sheet_names() {
                match wb.worksheet_range(&n) {
                    Ok(r) => println!("sheet {:?}: start={:?} end={:?} size={:?} cells={} rows={}", n, r.start(), r.end(), r.get_size(), r.cells().count(), r.rows().count()),
                    Err(e) => println!("sheet {:?}: {:?}", n, e),
                }
            }
        }
        Err(e) => println!("open: {:?}", e),
    }
    0
}

/// Debug helper: list the stored-fault sites of a fixture (`sim sites <file> <tier> [grep]`).
pub fn sites_main(file: &str, tier: Tier, pat: &str) -> i32 {
    let corpus = match crate::corpus::load() {
        Ok(c) => c,
        Err(_) => return 2,
    };
    let fx = match crate::corpus::find(&corpus, file) {
        Some(f) => f.clone(),
        None => return 2,
    };
    let mut parts = crate::image::Parts::new(&fx.bytes);
    let sites = crate::faultgen::sites(&fx, &mut parts, tier);
    let mut n = 0;
    for (i, g) in sites.iter().enumerate() {
        let why: Vec<&str> = g.faults.iter().map(|f| f.why.as_str()).collect();
        let line = format!("{} inner={:?} {} :: {}", i, g.inner, why.join(" ; "), serde_json::to_string(&g.faults).unwrap_or_default());
        if pat.is_empty() || line.contains(pat) {
            println!("{}", line);
            n += 1;
        }
    }
    println!("{} of {} sites", n, sites.len());
    0
}

/// Every open known finding must still be reproducible from its kept replay file (otherwise
/// the entry is stale: the defect moved or was repaired and the entry must be updated).
pub fn selftest_known() -> i32 {
    let known = match load_known() {
        Ok(k) => k,
        Err(e) => {
            eprintln!("harness error: {}", e);
            return 2;
        }
    };
    let mut bad = 0;
    let mut n = 0;
    for k in known.iter().filter(|k| k.status == "open") {
        n += 1;
        if k.example_replay.is_empty() {
            println!("alias {} {} (no replay of its own)", k.class, k.origin_fn);
            continue;
        }
        for rp in std::iter::once(&k.example_replay).chain(k.more_replays.iter()) {
            let path = format!("{}/{}", verif_root(), rp);
            let rf: ReplayFile = match std::fs::read_to_string(&path).ok().and_then(|t| serde_json::from_str(&t).ok()) {
                Some(r) => r,
                None => {
                    println!("STALE {}: no readable replay file {}", k.origin, path);
                    bad += 1;
                    continue;
                }
            };
            let hit = exec_spec_isolated(&rf.spec, 1).map(|r| r.violations.iter().any(|v| v.class == k.class && (v.origin == k.origin || (!k.origin_fn.is_empty() && site_fn(&v.origin) == k.origin_fn)))).unwrap_or(false);
            if hit {
                println!("ok    {} {} ({})", k.class, if k.origin.is_empty() { &k.origin_fn } else { &k.origin }, rp);
            } else {
                println!("STALE {} {}: {} does not reproduce it", k.class, k.origin, rp);
                bad += 1;
            }
        }
    }
    println!("known findings: {} open, {} stale", n, bad);
    if bad == 0 {
        0
    } else {
        1
    }
}
