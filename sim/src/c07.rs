//! sim-history (C07): read calls are pure and the alternative access paths agree.
//! Seeded call histories × I/O delivery/fault schedules, refined against the single-copy
//! reference model (DESIGN §4.1).

use crate::corpus::{Fixture, Format};
use crate::engine::*;
use crate::guard::erase_numbers;
use crate::model::FileModel;
use crate::prng::{h3, tag, Chooser, Sig};
use crate::runner::{execute, fired_array, ExecOpts, Execution, Limits};
use crate::spec::{RunResult, RunSpec, Violation};
use crate::wb::{Entry, Op, Outcome, SheetArg};

pub const ID: &str = "C07";

pub fn total_runs(ctx: &mut Ctx) -> u64 {
    let n = ctx.rotation().len() as u64;
    let sweep = sweep_layout(ctx).len() as u64;
    sweep
        + match ctx.tier {
            Tier::Quick => n * 150,
            Tier::Thorough => n * 3000,
        }
}

/// One item of the single-fault sweep that precedes the seeded histories (fault enumeration,
/// independent of VERIF_SEED): one error fault at *every* I/O event of the open call, and at
/// every event of each kind of read call, of every fixture — followed by the calls that must
/// still give the model's answer (or fail in the faulted call itself).
#[derive(Clone, Debug)]
pub struct SweepItem {
    pub fixture: usize,
    pub entry: Entry,
    pub ops: Vec<Op>,
    pub fault: crate::simdisk::PlacedFault,
}

fn sweep_histories(format: Format, n_sheets: usize, n_tables: usize) -> Vec<Vec<Op>> {
    let s0 = SheetArg::Idx(0);
    let last = SheetArg::Idx(n_sheets.saturating_sub(1));
    let mut v: Vec<Vec<Op>> = vec![
        vec![Op::Range(s0.clone()), Op::Range(s0.clone()), Op::Formula(s0.clone()), Op::Range(last.clone())],
        vec![Op::Formula(s0.clone()), Op::Formula(s0.clone()), Op::Range(s0.clone())],
        vec![Op::Worksheets, Op::Worksheets, Op::Range(last.clone())],
        vec![Op::Vba, Op::Vba, Op::Range(s0.clone())],
    ];
    if format.is_lazy() {
        v.push(vec![Op::RangeRef(s0.clone()), Op::RangeRef(s0.clone()), Op::Range(s0.clone())]);
        v.push(vec![Op::SetHeader(Some(1)), Op::Range(last.clone()), Op::Range(last.clone()), Op::SetHeader(None), Op::Range(last.clone())]);
    }
    if matches!(format, Format::Xlsx | Format::Xls) {
        v.push(vec![Op::MergeCells(s0.clone()), Op::MergeCells(s0.clone()), Op::MergeCellsAt(n_sheets.saturating_sub(1))]);
    }
    if format == Format::Xlsx {
        v.push(vec![Op::LoadMerged, Op::LoadMerged, Op::MergedAll, Op::MergedBySheet(s0.clone())]);
        let mut t = vec![Op::LoadTables, Op::LoadTables, Op::TableNames];
        for k in 0..n_tables.min(3) {
            t.push(Op::TableByName(SheetArg::Idx(k)));
        }
        v.push(t);
        if n_tables > 0 {
            v.push(vec![Op::LoadTables, Op::TableByName(SheetArg::Idx(0)), Op::TableByName(SheetArg::Idx(0)), Op::TableByNameRef(SheetArg::Idx(n_tables - 1))]);
        }
    }
    v
}

pub fn sweep_layout(ctx: &mut Ctx) -> std::sync::Arc<Vec<SweepItem>> {
    if let Some(l) = &ctx.c07_sweep {
        return l.clone();
    }
    use crate::simdisk::{FaultKind, PlacedFault};
    let mut items = Vec::new();
    let real: Vec<usize> = (0..ctx.corpus.len()).filter(|i| !ctx.corpus[*i].name.starts_with("synth-") || ctx.corpus[*i].name.contains(".dual.")).collect();
    // quick: a third of the fixtures in rotation order would depend on the seed; take every file but cap the events
    let cap = match ctx.tier {
        Tier::Quick => 40usize,
        Tier::Thorough => 2000,
    };
    for fi in real {
        let fx = ctx.corpus[fi].clone();
        let (open_ok, n_sheets, n_tables) = {
            let m = ctx.models.get(&fx);
            (matches!(m.open, Outcome::Ok(_)), m.sheet_names.len(), m.table_names.len())
        };
        if !open_ok || n_sheets == 0 {
            continue;
        }
        let own = Entry::own(fx.format);
        let limits = Limits::for_input(fx.bytes.len(), crate::model::MODEL_CPU_NS);
        let after_open: Vec<Op> = vec![Op::Meta, Op::Range(SheetArg::Idx(0)), Op::Range(SheetArg::Idx(n_sheets - 1)), Op::Formula(SheetArg::Idx(0)), Op::Vba, Op::LoadTables, Op::TableNames, Op::LoadMerged, Op::MergedAll, Op::MergeCells(SheetArg::Idx(0))];
        // events of the open call on a perfect disk
        for entry in [own, Entry::Auto] {
            let dry = execute(fx.bytes.clone(), entry, crate::simdisk::Delivery::perfect(), &[], limits, &ExecOpts { capture: false, stop_on_panic: true, probes: &[], record_kinds: true });
            let n = dry.open_events as usize;
            let open_kinds: Vec<u8> = dry.kinds.iter().filter(|(op, _)| *op == 0).map(|(_, k)| *k).collect();
            let step = (n + cap - 1) / cap.max(1);
            for e in (0..n).step_by(step.max(1)) {
                for kind in [FaultKind::Eio, FaultKind::Eintr] {
                    // EINTR is a behaviour of reads: placing it on a seek would be a fault without workload
                    if kind == FaultKind::Eintr && open_kinds.get(e) != Some(&b'r') {
                        continue;
                    }
                    items.push(SweepItem { fixture: fi, entry, ops: after_open.clone(), fault: PlacedFault { op: 0, rel: e as u32, kind } });
                }
            }
        }
        // events of each kind of read call
        for h in sweep_histories(fx.format, n_sheets, n_tables) {
            let dry = execute(fx.bytes.clone(), own, crate::simdisk::Delivery::perfect(), &h, limits, &ExecOpts { capture: false, stop_on_panic: true, probes: &[], record_kinds: false });
            for (call, rec) in dry.ops.iter().enumerate() {
                // fault the first call that does I/O (and, for histories that start with a load, the call after it)
                if rec.events == 0 || call > 1 {
                    continue;
                }
                let n = rec.events as usize;
                let step = (n + cap - 1) / cap.max(1);
                for e in (0..n).step_by(step.max(1)) {
                    for kind in [FaultKind::Eio, FaultKind::EioSticky] {
                        if kind == FaultKind::EioSticky && e % 4 != 0 {
                            continue;
                        }
                        items.push(SweepItem { fixture: fi, entry: own, ops: h.clone(), fault: PlacedFault { op: call as u32 + 1, rel: e as u32, kind } });
                    }
                }
            }
        }
    }
    let l = std::sync::Arc::new(items);
    ctx.c07_sweep = Some(l.clone());
    l
}

fn unknown_name(ch: &mut Chooser, names: &[String]) -> String {
    let cand = match ch.below(6) {
        0 => String::new(),
        1 => format!("Sheet{}", ch.below(1000) + 100),
        2 if !names.is_empty() => {
            let n = ch.pick(names);
            let flipped: String = n.chars().map(|c| if c.is_lowercase() { c.to_ascii_uppercase() } else { c.to_ascii_lowercase() }).collect();
            flipped
        }
        3 if !names.is_empty() => {
            let n = ch.pick(names);
            n.chars().take(n.chars().count().saturating_sub(1)).collect()
        }
        4 if !names.is_empty() => format!("{} ", ch.pick(names)),
        _ => "xl/worksheets/sheet1.xml".to_string(),
    };
    if names.contains(&cand) {
        format!("{}\u{1}", cand)
    } else {
        cand
    }
}

fn sheet_arg(ch: &mut Chooser, names: &[String]) -> SheetArg {
    let n = names.len();
    match ch.below(100) {
        0..=79 if n > 0 => SheetArg::Idx(ch.below(n as u64) as usize),
        80..=84 => SheetArg::Idx(n + ch.below(3) as usize),
        _ => SheetArg::Lit(unknown_name(ch, names)),
    }
}

fn header_arg(ch: &mut Chooser) -> Option<u32> {
    match ch.below(10) {
        0..=2 => None,
        3 => Some(0),
        4 => Some(1),
        5 => Some(ch.below(12) as u32),
        6 => Some(ch.below(80) as u32),
        7 => Some(1_000_000),
        8 => Some(u32::MAX),
        _ => Some(ch.below(5) as u32),
    }
}

pub fn gen_op(ch: &mut Chooser, format: Format, ref_ok: bool, names: &[String], n_tables: usize) -> Op {
    let n = names.len();
    let idx = |ch: &mut Chooser| if n == 0 { 0 } else { ch.below(n as u64 + 1) as usize };
    loop {
        let r = ch.below(100);
        let op = match r {
            0..=11 => Op::SetHeader(header_arg(ch)),
            12..=29 => Op::Range(sheet_arg(ch, names)),
            30..=39 => Op::RangeRef(sheet_arg(ch, names)),
            40..=45 => Op::RangeAt(idx(ch)),
            46..=48 => Op::RangeAtRef(idx(ch)),
            49..=53 => Op::Worksheets,
            54..=63 => Op::Formula(sheet_arg(ch, names)),
            64..=69 => Op::MergeCells(sheet_arg(ch, names)),
            70..=71 => Op::MergeCellsAt(idx(ch)),
            72..=74 => Op::LoadMerged,
            75..=76 => Op::MergedAll,
            77..=78 => Op::MergedBySheet(sheet_arg(ch, names)),
            79..=82 => Op::LoadTables,
            83..=84 => Op::TableNames,
            85..=86 => Op::TableNamesInSheet(sheet_arg(ch, names)),
            87..=91 => Op::TableByName(if ch.chance(4, 5) { SheetArg::Idx(ch.below(n_tables as u64 + 1) as usize) } else { SheetArg::Lit(unknown_name(ch, names)) }),
            92..=93 => Op::TableByNameRef(SheetArg::Idx(ch.below(n_tables as u64 + 1) as usize)),
            94..=96 => Op::Vba,
            _ => Op::Meta,
        };
        // keep the alphabet of the format (documented: the eager formats' own readers have no
        // range_ref; the `Sheets` wrapper of auto-detection has it for all four)
        let ok = match (&op, format) {
            (Op::RangeRef(_) | Op::RangeAtRef(_), Format::Xls | Format::Ods) if !ref_ok => false,
            (Op::LoadMerged | Op::MergedAll | Op::MergedBySheet(_), f) if f != Format::Xlsx => false,
            (Op::LoadTables | Op::TableNames | Op::TableNamesInSheet(_) | Op::TableByName(_) | Op::TableByNameRef(_), f) if f != Format::Xlsx => false,
            (Op::MergeCells(_) | Op::MergeCellsAt(_), Format::Xlsb | Format::Ods) => false,
            _ => true,
        };
        if ok {
            return op;
        }
    }
}

pub fn gen(ctx: &mut Ctx, idx: u64) -> (RunSpec, Cfg) {
    let sweep = sweep_layout(ctx);
    if (idx as usize) < sweep.len() {
        let it = &sweep[idx as usize];
        let fx = ctx.corpus[it.fixture].clone();
        let mut delivery = crate::simdisk::Delivery::perfect();
        delivery.faults.push(it.fault);
        return (
            RunSpec {
                property: ID.into(),
                file: fx.name.clone(),
                inner: None,
                entry: it.entry,
                stored_faults: vec![],
                delivery,
                ops: it.ops.clone(),
                note: format!("single-fault sweep: {:?} at event {} of call {}", it.fault.kind, it.fault.rel, it.fault.op),
            },
            // the fault is already placed: nothing for the dry pass to do
            Cfg::A,
        );
    }
    let idx = idx - sweep.len() as u64;
    let seed = h3(ctx.seed, tag(ID), idx);
    let rot = ctx.rotation();
    let fx = ctx.corpus[rot[(idx % rot.len() as u64) as usize]].clone();
    let mut ch = Chooser::new(seed, "c07");
    let m = ctx.models.get(&fx);
    let entry = if ch.chance(1, 3) { Entry::Auto } else { Entry::own(fx.format) };
    let ref_ok = fx.format.is_lazy() || entry == Entry::Auto;
    let cfg = match ch.below(10) {
        0..=3 => Cfg::A,
        4..=5 => Cfg::B,
        _ => Cfg::C,
    };
    let delivery = gen_delivery(&mut ch, cfg, fx.bytes.len());
    let names = m.sheet_names.clone();
    let nt = m.table_names.len();
    let len = if ch.chance(1, 3) { ch.range(3, 8) } else { ch.range(6, 40) };
    let mut ops = Vec::new();
    // swarm: a per-run bias towards one family of calls, so that some runs hammer a single cache
    let focus = ch.below(5);
    for _ in 0..len {
        let op = match focus {
            0 if ch.chance(1, 2) => {
                if fx.format == Format::Xlsx {
                    match ch.below(5) {
                        0 => Op::LoadTables,
                        1 => Op::TableNames,
                        2 => Op::TableByName(SheetArg::Idx(ch.below(nt as u64 + 1) as usize)),
                        3 => Op::TableByNameRef(SheetArg::Idx(ch.below(nt as u64 + 1) as usize)),
                        _ => Op::SetHeader(header_arg(&mut ch)),
                    }
                } else {
                    gen_op(&mut ch, fx.format, ref_ok, &names, nt)
                }
            }
            1 if ch.chance(1, 2) => {
                if fx.format == Format::Xlsx {
                    match ch.below(4) {
                        0 => Op::LoadMerged,
                        1 => Op::MergedAll,
                        2 => Op::MergeCells(sheet_arg(&mut ch, &names)),
                        _ => Op::MergedBySheet(sheet_arg(&mut ch, &names)),
                    }
                } else {
                    gen_op(&mut ch, fx.format, ref_ok, &names, nt)
                }
            }
            2 if ch.chance(1, 2) => {
                // re-read the same sheet through every path
                let a = sheet_arg(&mut ch, &names);
                match ch.below(4) {
                    0 => Op::Range(a),
                    1 if ref_ok => Op::RangeRef(a),
                    2 => Op::Formula(a),
                    _ => Op::SetHeader(header_arg(&mut ch)),
                }
            }
            _ => gen_op(&mut ch, fx.format, ref_ok, &names, nt),
        };
        ops.push(op);
    }
    (
        RunSpec { property: ID.into(), file: fx.name.clone(), inner: None, entry, stored_faults: vec![], delivery, ops, note: format!("cfg {}", cfg.name()) },
        cfg,
    )
}

/// Rule 2 on the model itself: the alternative access paths agree (checked once per file and
/// header value, memoised through the model).
pub fn check_agreement(m: &mut FileModel, header: Option<u32>) -> Vec<Violation> {
    let mut v = Vec::new();
    if !matches!(m.open, Outcome::Ok(_)) {
        return v;
    }
    let names = m.sheet_names.clone();
    let lazy = m.format.is_lazy();
    for (i, n) in names.iter().enumerate() {
        let a = SheetArg::Lit(n.clone());
        let r = m.outcome(&Op::Range(a.clone()), header);
        if lazy {
            let rr = m.outcome(&Op::RangeRef(a.clone()), header);
            if !r.same(&rr) {
                v.push(agree("C07:range-vs-range_ref", n, header, &r, &rr));
            }
            let rar = m.outcome(&Op::RangeAtRef(i), header);
            if !r.same(&rar) {
                v.push(agree("C07:range-vs-range_at_ref", n, header, &r, &rar));
            }
        }
        // duplicate names: `worksheet_range_at(i)` is "the i-th sheet *name*", so compare by name
        let ra = m.outcome(&Op::RangeAt(i), header);
        if !r.same(&ra) {
            v.push(agree("C07:range-vs-range_at", n, header, &r, &ra));
        }
    }
    if header.is_none() {
        // under the default option the entries of worksheets(), matched by name, equal worksheet_range(name)
        for (n, h) in m.worksheets_entries(None) {
            let r = m.outcome(&Op::Range(SheetArg::Lit(n.clone())), None);
            let ok = matches!(&r, Outcome::Ok(c) if c.h == h);
            if !ok {
                v.push(Violation {
                    class: "agreement".into(),
                    origin: "C07:worksheets-vs-range".into(),
                    client: String::new(),
                    msg: format!("sheet {:?}", n),
                    op: -1,
                    detail: format!("worksheets() entry #{:016x} vs worksheet_range: {}", h, r.brief()),
                });
            }
        }
    }
    let beyond = m.outcome(&Op::RangeAt(names.len()), header);
    if !matches!(beyond, Outcome::Absent) {
        v.push(Violation { class: "agreement".into(), origin: "C07:range_at-out-of-range".into(), client: String::new(), msg: beyond.brief(), op: -1, detail: format!("worksheet_range_at({}) with {} sheets", names.len(), names.len()) });
    }
    v
}

fn agree(label: &str, sheet: &str, header: Option<u32>, a: &Outcome, b: &Outcome) -> Violation {
    Violation {
        class: "agreement".into(),
        origin: label.into(),
        client: String::new(),
        msg: format!("sheet {:?} header {:?}", sheet, header),
        op: -1,
        detail: format!("{}  vs  {}", a.brief(), b.brief()),
    }
}

fn is_unknown_sheet(op: &Op, names: &[String]) -> Option<String> {
    let a = match op {
        Op::Range(a) | Op::RangeRef(a) | Op::Formula(a) | Op::MergeCells(a) => a,
        _ => return None,
    };
    match a {
        SheetArg::Lit(s) if !names.contains(s) => Some(s.clone()),
        SheetArg::Idx(k) if *k >= names.len() => Some(format!("#{}", k)),
        _ => None,
    }
}

pub fn check(ctx: &mut Ctx, spec: &RunSpec, ex: &Execution) -> (Vec<Violation>, Vec<String>) {
    let mut viol: Vec<Violation> = Vec::new();
    let mut probes: Vec<String> = Vec::new();
    let fx: Fixture = match ctx.fixture(&spec.file) {
        Some(f) => f,
        None => return (viol, probes),
    };
    let m = ctx.models.get(&fx);
    let legal_only = spec.delivery.faults.is_empty() && spec.delivery.eintr_ppk == 0;

    // ---- open ----
    let open_faulted = ex.open_fired.error_faults() > 0;
    let open_eintr = ex.open_fired.eintr > 0;
    match (&ex.open, &m.open) {
        (Outcome::Ok(_), Outcome::Ok(_)) => {}
        (a, b) if a.same(b) => return (viol, probes), // e.g. password-protected: same error both ways
        // The property speaks of *opened* workbooks.  When neither path opens the file, which
        // error each reports is not its business (auto-detection answers "Cannot detect file
        // format" where the format's own reader says `Password`).
        (Outcome::Err(_), Outcome::Err(_)) => {
            probes.push("open_fails_both_ways".into());
            return (viol, probes);
        }
        // `ErrorKind::Interrupted` is retryable by contract and every read path of calamine and of
        // its dependencies retries it (cfb did not; repaired, 8a8dd68): an open that fails when
        // nothing but EINTR was injected is a violation, no longer a probe
        (Outcome::Err(e), _) if open_eintr && !open_faulted => {
            viol.push(Violation {
                class: "mismatch".into(),
                origin: "C07:eintr-surfaced:open".into(),
                client: String::new(),
                msg: format!("{} via {}", fx.name, spec.entry.name()),
                op: 0,
                detail: format!("open failed with {} although only ErrorKind::Interrupted was injected; on a perfect disk it opens", e),
            });
            return (viol, probes);
        }
        (Outcome::Err(e), _) if open_faulted => {
            if open_faulted && spec.entry == Entry::Auto {
                probes.push("error_fault_during_auto_detection".into());
            }
            let _ = e;
            return (viol, probes);
        }
        (a, b) => {
            let _ = legal_only;
            match a {
                Outcome::Panic(p) => viol.push(Violation { class: "panic".into(), origin: p.origin.clone(), client: p.client.clone(), msg: erase_numbers(&p.msg), op: 0, detail: format!("open panics; the model says {}", b.brief()) }),
                _ => viol.push(Violation {
                    class: "mismatch".into(),
                    origin: "C07:open".into(),
                    client: String::new(),
                    msg: format!("{} via {}", fx.name, spec.entry.name()),
                    op: 0,
                    detail: format!("open: {}  but on a fresh reader over a perfect disk: {}", a.brief(), b.brief()),
                }),
            }
            return (viol, probes);
        }
    }
    if spec.entry == Entry::Auto {
        let want = format!("auto:{}", fx.format.name());
        if ex.kind != want {
            viol.push(Violation {
                class: "mismatch".into(),
                origin: "C07:auto-opened-as-other-format".into(),
                client: String::new(),
                msg: format!("{} opened as {}", fx.name, ex.kind),
                op: 0,
                detail: format!("fired at open: {:?}", ex.open_fired),
            });
            return (viol, probes);
        }
    }
    if ex.sheet_names != m.sheet_names {
        viol.push(Violation { class: "mismatch".into(), origin: "C07:sheet_names".into(), client: String::new(), msg: fx.name.clone(), op: 0, detail: format!("{:?} vs model {:?}", ex.sheet_names, m.sheet_names) });
        return (viol, probes);
    }

    // ---- calls ----
    let mut dead = ex.open_fired.eio_sticky > 0;
    let mut headers_used: Vec<Option<u32>> = vec![None];
    let mut tables_loaded = false;
    let mut merged_loaded = false;
    let mut last_failed_with_fault = false;
    for (i, rec) in ex.ops.iter().enumerate() {
        let opi = i as i32 + 1;
        let err_fault = rec.fired.error_faults() > 0;
        let eintr = rec.fired.eintr > 0;
        if rec.fired.eio_sticky > 0 {
            dead = true;
        }
        if matches!(rec.outcome, Outcome::Skipped(_)) {
            // a getter whose documented prerequisite has not succeeded yet in this history
            last_failed_with_fault = false;
            continue;
        }
        if let Op::SetHeader(h) = &rec.op {
            if !headers_used.contains(h) {
                headers_used.push(*h);
            }
            continue;
        }
        let want = m.outcome(&rec.op, rec.header);
        let unknown = is_unknown_sheet(&rec.op, &m.sheet_names);
        if let (Some(u), Outcome::Ok(c)) = (&unknown, &rec.outcome) {
            viol.push(Violation {
                class: "mismatch".into(),
                origin: "C07:unknown-sheet-returned-data".into(),
                client: String::new(),
                msg: format!("{:?}", rec.op),
                op: opi,
                detail: format!("unknown sheet name {:?} answered with {}", u, c.brief),
            });
            break;
        }
        if last_failed_with_fault && rec.events > 0 && !err_fault && !dead {
            probes.push("io_call_after_failed_call".into());
        }
        match &rec.op {
            Op::LoadTables if matches!(rec.outcome, Outcome::Ok(_)) => tables_loaded = true,
            Op::LoadMerged if matches!(rec.outcome, Outcome::Ok(_)) => merged_loaded = true,
            Op::TableByName(_) | Op::TableByNameRef(_) | Op::TableNames | Op::TableNamesInSheet(_) if tables_loaded && rec.events > 0 && err_fault => {
                probes.push("fault_between_load_tables_and_table_by_name".into())
            }
            _ => {}
        }
        let _ = merged_loaded;
        let same = match (&rec.op, &rec.outcome, &want) {
            // `worksheets()` swallows errors: under an error fault entries may be missing, but
            // every entry present must equal the model's entry of that name
            (Op::Worksheets, Outcome::Ok(_), Outcome::Ok(_)) if (err_fault || dead) && !rec.outcome.same(&want) => {
                probes.push("worksheets_lost_entries_under_fault".into());
                worksheets_subset(m, rec.header, &rec.worksheets)
            }
            // through auto-detection an error is an error: which variant or text the wrapper
            // reports is not a "result" the property compares (the model is the own reader)
            (_, Outcome::Err(_), Outcome::Err(_)) if spec.entry == Entry::Auto => true,
            _ => rec.outcome.same(&want),
        };
        if same {
            last_failed_with_fault = false;
            continue;
        }
        // not equal to the model: which narrow relaxation, if any, applies?
        match &rec.outcome {
            Outcome::Err(_) if err_fault || (dead && rec.fired.dead_hits > 0) => {
                probes.push("err_in_call_with_error_fault".into());
                last_failed_with_fault = true;
                continue;
            }
            // `None` from an Option-returning call means "no such sheet / no VBA project": under a
            // fault that is wrong data, not a failure (vba_project used to do this; repaired, ab7a206)
            Outcome::Err(e) if eintr => {
                viol.push(Violation {
                    class: "mismatch".into(),
                    origin: format!("C07:eintr-surfaced:{}", op_label(&rec.op)),
                    client: String::new(),
                    msg: format!("{:?} under header {:?}", rec.op, rec.header),
                    op: opi,
                    detail: format!("the call failed with {} although only ErrorKind::Interrupted was delivered during it; a fresh reader over a perfect disk returns {}", e, want.brief()),
                });
                break;
            }
            Outcome::Panic(p) => {
                viol.push(Violation {
                    class: "panic".into(),
                    origin: p.origin.clone(),
                    client: p.client.clone(),
                    msg: erase_numbers(&p.msg),
                    op: opi,
                    detail: format!("{:?} under header {:?} panics in this history; fresh reader over a perfect disk: {}", rec.op, rec.header, want.brief()),
                });
                break;
            }
            got => {
                let label = match (&rec.op, spec.entry) {
                    (_, Entry::Auto) => "C07:auto-vs-own-reader",
                    (Op::Range(_), _) => "C07:impure:worksheet_range",
                    (Op::RangeRef(_), _) => "C07:impure:worksheet_range_ref",
                    (Op::RangeAt(_), _) => "C07:impure:worksheet_range_at",
                    (Op::RangeAtRef(_), _) => "C07:impure:worksheet_range_at_ref",
                    (Op::Worksheets, _) => "C07:impure:worksheets",
                    (Op::Formula(_), _) => "C07:impure:worksheet_formula",
                    (Op::MergeCells(_) | Op::MergeCellsAt(_), _) => "C07:impure:worksheet_merge_cells",
                    (Op::LoadMerged | Op::MergedAll | Op::MergedBySheet(_), _) => "C07:impure:merged_regions",
                    (Op::LoadTables | Op::TableNames | Op::TableNamesInSheet(_) | Op::TableByName(_) | Op::TableByNameRef(_), _) => "C07:impure:tables",
                    (Op::Vba, _) => "C07:impure:vba_project",
                    (Op::Meta, _) => "C07:impure:metadata",
                    _ => "C07:impure",
                };
                viol.push(Violation {
                    class: "mismatch".into(),
                    origin: label.into(),
                    client: String::new(),
                    msg: format!("{:?} under header {:?} ({})", rec.op, rec.header, ex.kind),
                    op: opi,
                    detail: format!(
                        "call #{} of the history returned {}  but the same call on a fresh reader over a perfect disk returns {}  (faults fired in this call: {:?}; disk dead: {})",
                        opi,
                        got.brief(),
                        want.brief(),
                        rec.fired,
                        dead
                    ),
                });
                break;
            }
        }
    }

    // ---- rule 2 on the model, for every header value this history used ----
    if viol.is_empty() {
        for h in headers_used.into_iter().take(4) {
            let a = check_agreement(m, h);
            if !a.is_empty() {
                viol.extend(a.into_iter().take(2));
                break;
            }
        }
    }
    probes.sort();
    probes.dedup();
    (viol, probes)
}

/// Under an error fault `worksheets()` may lose entries (the API swallows errors); every
/// entry present must equal the model's entry of that name, in the model's order.
fn worksheets_subset(m: &mut FileModel, header: Option<u32>, got: &[(String, u64)]) -> bool {
    let want = m.worksheets_entries(header);
    let mut k = 0;
    for e in got {
        match want[k..].iter().position(|w| w == e) {
            Some(p) => k += p + 1,
            None => return false,
        }
    }
    true
}

pub fn exec_spec(ctx: &mut Ctx, spec: &RunSpec, idx: u64) -> RunResult {
    let fx = match ctx.fixture(&spec.file) {
        Some(f) => f,
        None => return RunResult { idx, outcome: format!("harness: unknown file {}", spec.file), ..Default::default() },
    };
    let clean = ctx.models.get(&fx).clean_cpu_ns;
    let limits = Limits::for_input(fx.bytes.len(), crate::c08::cpu_budget(clean) * ctx.cpu_scale);
    let ex = execute(fx.bytes.clone(), spec.entry, spec.delivery.clone(), &spec.ops, limits, &ExecOpts { capture: false, stop_on_panic: true, probes: &[], record_kinds: false });
    let (violations, probes) = check(ctx, spec, &ex);
    let mut s = Sig::new();
    s.u(det_hash(&ex));
    for v in &violations {
        s.s(&v.origin);
    }
    let io_calls = ex.ops.iter().filter(|r| r.events > 0).count();
    let deviated = ex.fired.short_reads + ex.fired.eintr + ex.fired.error_faults() > 0;
    let checked = ex.ops.iter().filter(|r| !matches!(r.outcome, Outcome::Skipped(_)) && !matches!(r.op, Op::SetHeader(_))).count();
    let nontrivial = if fx.format.is_lazy() { io_calls >= 2 && deviated } else { checked >= 2 && deviated };
    let want_sample = ctx.verbose || !violations.is_empty();
    RunResult {
        idx,
        exec: spec_hash(spec),
        io: ex.io_sig,
        det: s.0,
        nontrivial,
        events: ex.events,
        bytes: ex.bytes,
        ops: ex.ops.len() as u32 + 1,
        fired: fired_array(&ex.fired),
        stored: 0,
        consumed: 0,
        kinds: vec![],
        outcome: format!("{}:{}", fx.format.name(), ex.open.class()),
        probes,
        spec: if want_sample { Some(spec.clone()) } else { None },
        sample: if want_sample { Some(sample_json(spec, &ex)) } else { None },
        violations,
        peak: ex.alloc.peak as u64,
        cpu_us: (ex.cpu_ns / 1000) as u64,
        phase: (if spec.note.starts_with("single-fault sweep") { "single-fault-sweep" } else { "seeded-histories" }).to_string(),
    }
}

/// The spec a seeded run finally executes: for configuration C a dry pass (configuration
/// A/B, checked strictly) provides the per-call event counts the error faults are placed with.
pub fn final_spec(ctx: &mut Ctx, idx: u64) -> RunSpec {
    let (mut spec, cfg) = gen(ctx, idx);
    if cfg != Cfg::C {
        return spec;
    }
    let fx = ctx.fixture(&spec.file).unwrap();
    let clean = ctx.models.get(&fx).clean_cpu_ns;
    let limits = Limits::for_input(fx.bytes.len(), crate::c08::cpu_budget(clean) * ctx.cpu_scale);
    let dry = execute(fx.bytes.clone(), spec.entry, spec.delivery.clone(), &spec.ops, limits, &ExecOpts { capture: false, stop_on_panic: true, probes: &[], record_kinds: false });
    let (v, _) = check(ctx, &spec, &dry);
    if !v.is_empty() {
        // the fault-free configuration already violates: report that, strictly
        return spec;
    }
    let seed = h3(ctx.seed, tag(ID), idx);
    let mut ch = Chooser::new(seed, "c07-faults");
    let n = ch.range(1, 3) as usize;
    let prefer = preferred_calls(&spec.ops);
    spec.delivery.faults = place_faults(&mut ch, &dry.op_events, n, &prefer);
    spec
}

pub fn run(ctx: &mut Ctx, idx: u64) -> RunResult {
    let spec = final_spec(ctx, idx);
    exec_spec(ctx, &spec, idx)
}

/// API name of a call, for violation labels.
fn op_label(op: &Op) -> &'static str {
    match op {
        Op::Range(_) => "worksheet_range",
        Op::RangeRef(_) => "worksheet_range_ref",
        Op::RangeAt(_) => "worksheet_range_at",
        Op::RangeAtRef(_) => "worksheet_range_at_ref",
        Op::Worksheets => "worksheets",
        Op::Formula(_) => "worksheet_formula",
        Op::MergeCells(_) | Op::MergeCellsAt(_) => "worksheet_merge_cells",
        Op::LoadMerged | Op::MergedAll | Op::MergedBySheet(_) => "merged_regions",
        Op::LoadTables | Op::TableNames | Op::TableNamesInSheet(_) | Op::TableByName(_) | Op::TableByNameRef(_) => "tables",
        Op::Vba => "vba_project",
        _ => "other",
    }
}
