//! Counter-mode PRNG: every choice is `hash(seed, stream, index)`, never a sequential draw
//! (DESIGN §2.2).  A run is therefore a pure function of its seed, and dropping a step during
//! minimisation does not reshuffle any other decision.

#[inline]
pub fn mix64(mut z: u64) -> u64 {
    // splitmix64 finaliser
    z = z.wrapping_add(0x9E37_79B9_7F4A_7C15);
    z = (z ^ (z >> 30)).wrapping_mul(0xBF58_476D_1CE4_E5B9);
    z = (z ^ (z >> 27)).wrapping_mul(0x94D0_49BB_1331_11EB);
    z ^ (z >> 31)
}

#[inline]
pub fn h3(seed: u64, stream: u64, index: u64) -> u64 {
    mix64(mix64(mix64(seed) ^ stream.wrapping_mul(0xD6E8_FEB8_6659_FD93)) ^ index)
}

/// FNV-1a over bytes, folded through mix64; used for stream tags and content hashes.
pub fn hbytes(b: &[u8]) -> u64 {
    let mut h: u64 = 0xcbf2_9ce4_8422_2325;
    for &x in b {
        h ^= x as u64;
        h = h.wrapping_mul(0x0000_0100_0000_01B3);
    }
    mix64(h)
}

pub fn tag(s: &str) -> u64 {
    hbytes(s.as_bytes())
}

/// A named stream of choices for one run.  `Chooser::new(seed, "ops")` and
/// `Chooser::new(seed, "faults")` are independent; the i-th draw of a stream depends on
/// nothing but (seed, name, i).
#[derive(Clone)]
pub struct Chooser {
    seed: u64,
    stream: u64,
    i: u64,
}

impl Chooser {
    pub fn new(seed: u64, name: &str) -> Self {
        Chooser { seed, stream: tag(name), i: 0 }
    }
    pub fn sub(&self, name: &str, k: u64) -> Chooser {
        Chooser { seed: h3(self.seed, self.stream, k), stream: tag(name), i: 0 }
    }
    #[inline]
    pub fn next(&mut self) -> u64 {
        let v = h3(self.seed, self.stream, self.i);
        self.i += 1;
        v
    }
    /// uniform in 0..n (n > 0)
    #[inline]
    pub fn below(&mut self, n: u64) -> u64 {
        debug_assert!(n > 0);
        ((self.next() as u128 * n as u128) >> 64) as u64
    }
    pub fn range(&mut self, lo: u64, hi_incl: u64) -> u64 {
        lo + self.below(hi_incl - lo + 1)
    }
    pub fn chance(&mut self, num: u64, den: u64) -> bool {
        self.below(den) < num
    }
    pub fn pick<'a, T>(&mut self, xs: &'a [T]) -> &'a T {
        &xs[self.below(xs.len() as u64) as usize]
    }
}

/// Streaming 64-bit hash used for trace / result signatures.
#[derive(Clone, Copy)]
pub struct Sig(pub u64);
impl Sig {
    pub fn new() -> Self {
        Sig(0x1234_5678_9ABC_DEF1)
    }
    #[inline]
    pub fn u(&mut self, v: u64) {
        self.0 = mix64(self.0 ^ v.wrapping_mul(0x9E37_79B9_7F4A_7C15));
    }
    pub fn b(&mut self, b: &[u8]) {
        self.u(hbytes(b));
        self.u(b.len() as u64);
    }
    pub fn s(&mut self, s: &str) {
        self.b(s.as_bytes())
    }
}
impl Default for Sig {
    fn default() -> Self {
        Sig::new()
    }
}
