//! simkit: deterministic simulation with fault injection for calamine (see /verif/DESIGN.md).
pub mod c07;
pub mod c08;
pub mod corpus;
pub mod engine;
pub mod guard;
pub mod model;
pub mod prng;
pub mod runner;
pub mod simdisk;
pub mod spec;
pub mod wb;
pub mod c06;
pub mod driver;
pub mod worker;
