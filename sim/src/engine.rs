//! Pieces shared by the three engines: worker context, delivery configurations A/B/C
//! (DESIGN §4.1), fault placement inside operations (§2.3), execution identity hashes.

use crate::corpus::Fixture;
use crate::model::Models;
use crate::prng::{Chooser, Sig};
use crate::runner::Execution;
use crate::simdisk::{Chop, Delivery, FaultKind, PlacedFault};
use crate::spec::RunSpec;
use crate::wb::Outcome;

#[derive(Clone, Copy, Debug, PartialEq, Eq)]
pub enum Tier {
    Quick,
    Thorough,
}

impl Tier {
    pub fn parse(s: &str) -> Option<Tier> {
        match s {
            "quick" => Some(Tier::Quick),
            "thorough" => Some(Tier::Thorough),
            _ => None,
        }
    }
    pub fn name(self) -> &'static str {
        match self {
            Tier::Quick => "quick",
            Tier::Thorough => "thorough",
        }
    }
}

pub struct Ctx {
    pub corpus: Vec<Fixture>,
    pub models: Models,
    pub tier: Tier,
    pub seed: u64,
    /// include the full spec and a sample in every result (replay / minimise / sampling)
    pub verbose: bool,
    /// multiplier of the CPU budget (hang confirmation replays use 2)
    pub cpu_scale: i64,
    /// parsed containers per fixture (C06)
    pub parts: std::collections::HashMap<String, crate::image::Parts>,
    pub sites: std::collections::HashMap<String, std::sync::Arc<Vec<crate::faultgen::SiteGroup>>>,
    pub c06_layout: Option<std::sync::Arc<crate::c06::Layout>>,
    pub rotation: Option<std::sync::Arc<Vec<usize>>>,
    pub c07_sweep: Option<std::sync::Arc<Vec<crate::c07::SweepItem>>>,
}

impl Ctx {
    /// A fixture by name: from the corpus, or a synthesized workbook regenerated from its name
    /// (so that a replay file of another seed still finds its input).
    pub fn fixture(&mut self, name: &str) -> Option<Fixture> {
        if let Some(f) = crate::corpus::find(&self.corpus, name) {
            return Some(f.clone());
        }
        let f = crate::synth::make(name)?;
        self.corpus.push(f.clone());
        Some(f)
    }
    /// The order in which C07/C08 runs visit the corpus: every fixture at least once per
    /// round, feature-rich ones (tables, merged regions, VBA, many sheets) several times, so
    /// that the caches and second access paths only they have get a fair share of histories.
    pub fn rotation(&mut self) -> std::sync::Arc<Vec<usize>> {
        if let Some(r) = &self.rotation {
            return r.clone();
        }
        let mut v = Vec::new();
        for i in 0..self.corpus.len() {
            let fx = self.corpus[i].clone();
            let m = self.models.get(&fx);
            let mut w = 1;
            if !m.table_names.is_empty() {
                w += 5;
            }
            if fx.name.contains("merge") {
                w += 2;
            }
            if fx.name.ends_with(".xlsm") || fx.name == "vba.xlsm" {
                w += 1;
            }
            if m.sheet_names.len() >= 3 {
                w += 1;
            }
            for _ in 0..w {
                v.push(i);
            }
        }
        let r = std::sync::Arc::new(v);
        self.rotation = Some(r.clone());
        r
    }
    /// CPU time of a clean open + read of the fixture (basis of the termination budget).
    pub fn clean_ns(&mut self, fx: &Fixture) -> i64 {
        self.models.get(fx).clean_cpu_ns
    }
}

#[derive(Clone, Copy, Debug, PartialEq, Eq)]
pub enum Cfg {
    /// legal delivery only (short reads)
    A,
    /// + EINTR
    B,
    /// + transient / sticky EIO and seek errors placed inside calls
    C,
}

impl Cfg {
    pub fn name(self) -> &'static str {
        match self {
            Cfg::A => "A",
            Cfg::B => "B",
            Cfg::C => "C",
        }
    }
}

pub fn gen_chop(ch: &mut Chooser, image_len: usize) -> Chop {
    let r = ch.below(100);
    let c = match r {
        0..=9 => Chop::One,
        10..=29 => Chop::Tiny,
        30..=44 => Chop::Half,
        45..=79 => Chop::Mixed,
        80..=94 => Chop::Page(ch.range(2, 12) as u8),
        _ => Chop::Full,
    };
    // one-byte reads of a multi-megabyte file only burn time
    if image_len > 300_000 && matches!(c, Chop::One | Chop::Tiny) {
        Chop::Mixed
    } else {
        c
    }
}

pub fn gen_delivery(ch: &mut Chooser, cfg: Cfg, image_len: usize) -> Delivery {
    let mut d = Delivery { seed: ch.next(), chop: gen_chop(ch, image_len), eintr_ppk: 0, faults: vec![], force_full: vec![] };
    match cfg {
        Cfg::A => {}
        Cfg::B => d.eintr_ppk = *ch.pick(&[8u16, 32, 128]),
        Cfg::C => {
            if ch.chance(1, 4) {
                d.eintr_ppk = *ch.pick(&[8u16, 32]);
            }
        }
    }
    d
}

/// Place `n` error faults inside operations that actually perform I/O, using the event counts
/// of a dry pass with the same delivery (so none is wasted while idle or after EOF); extra
/// weight on the first and last event of a call.
pub fn place_faults(ch: &mut Chooser, op_events: &[u32], n: usize, prefer: &[usize]) -> Vec<PlacedFault> {
    let io_ops: Vec<usize> = op_events.iter().enumerate().filter(|(_, e)| **e > 0).map(|(i, _)| i).collect();
    let post_open: Vec<usize> = io_ops.iter().copied().filter(|i| *i > 0).collect();
    // calls worth hitting: cache loads (a failure must not leave a half-filled cache behind) and
    // the first I/O call after a cache load or an option change
    let prefer: Vec<usize> = prefer.iter().copied().filter(|i| io_ops.contains(i)).collect();
    let mut out = Vec::new();
    if io_ops.is_empty() {
        return out;
    }
    for _ in 0..n {
        let op = if !prefer.is_empty() && ch.chance(1, 2) {
            *ch.pick(&prefer)
        } else if !post_open.is_empty() && !ch.chance(15, 100) {
            *ch.pick(&post_open)
        } else {
            *ch.pick(&io_ops)
        };
        let cnt = op_events[op];
        let rel = match ch.below(4) {
            0 => 0,
            1 => cnt - 1,
            _ => ch.below(cnt as u64) as u32,
        };
        let kind = match ch.below(100) {
            0..=49 => FaultKind::Eio,
            50..=64 => FaultKind::EioSticky,
            65..=84 => FaultKind::SeekErr,
            _ => FaultKind::Eintr,
        };
        out.push(PlacedFault { op: op as u32, rel, kind });
    }
    out
}

/// Call numbers (1-based; 0 is the open call) a fault is preferably placed in: every cache
/// load and option change, and the call right after each of them.
pub fn preferred_calls(ops: &[crate::wb::Op]) -> Vec<usize> {
    use crate::wb::Op;
    let mut v = Vec::new();
    for (i, o) in ops.iter().enumerate() {
        match o {
            Op::LoadTables | Op::LoadMerged => {
                v.push(i + 1);
                v.push(i + 1);
                v.push(i + 2);
            }
            Op::SetHeader(_) => v.push(i + 2),
            _ => {}
        }
    }
    v.retain(|c| *c <= ops.len());
    v
}

pub fn spec_hash(spec: &RunSpec) -> u64 {
    let mut s = Sig::new();
    s.s(&spec.file);
    s.s(spec.inner.as_deref().unwrap_or(""));
    s.s(spec.entry.name());
    s.s(&serde_json::to_string(&spec.ops).unwrap_or_default());
    s.s(&serde_json::to_string(&spec.stored_faults).unwrap_or_default());
    s.s(&serde_json::to_string(&spec.delivery).unwrap_or_default());
    s.0
}

/// Everything deterministic about an execution, for the determinism self-check.
pub fn det_hash(ex: &Execution) -> u64 {
    let mut s = Sig::new();
    s.u(ex.io_sig);
    ex.open.sig(&mut s);
    for r in &ex.ops {
        r.outcome.sig(&mut s);
        s.u(r.events as u64);
    }
    s.u(ex.events);
    s.u(ex.bytes);
    s.u(ex.alloc.peak as u64);
    s.u(ex.alloc.count);
    s.u(ex.alloc.total);
    s.u(ex.budget_exceeded as u64);
    s.0
}

pub fn sample_json(spec: &RunSpec, ex: &Execution) -> serde_json::Value {
    let ops: Vec<String> = ex
        .ops
        .iter()
        .take(48)
        .map(|r| format!("{:?} [h={:?} ev={}] -> {}", r.op, r.header, r.events, r.outcome.brief()))
        .collect();
    serde_json::json!({
        "file": spec.file,
        "inner": spec.inner,
        "entry": spec.entry.name(),
        "note": spec.note,
        "stored_faults": spec.stored_faults.iter().map(|f| f.why.clone()).collect::<Vec<_>>(),
        "delivery": {"chop": format!("{:?}", spec.delivery.chop), "eintr_ppk": spec.delivery.eintr_ppk, "placed": spec.delivery.faults.iter().map(|f| format!("{:?}@op{}+{}", f.kind, f.op, f.rel)).collect::<Vec<_>>()},
        "open": ex.open.brief(),
        "opened_as": ex.kind,
        "calls": ops,
        "io_events": ex.events,
        "bytes_delivered": ex.bytes,
        "fired": {"short_reads": ex.fired.short_reads, "eintr": ex.fired.eintr, "eio": ex.fired.eio, "eio_sticky": ex.fired.eio_sticky, "seek_err": ex.fired.seek_err, "dead_hits": ex.fired.dead_hits},
        "peak_heap": ex.alloc.peak,
    })
}

pub fn outcome_is_panic(o: &Outcome) -> bool {
    matches!(o, Outcome::Panic(_))
}
