//! Synthesized xlsx / ods workbooks for the thorough tiers of C07 and C08 (DESIGN §4): sparse
//! grids with leading empty rows, gap rows, a first column that is not A, present-but-empty
//! cells, every cell type, implicit positions, merged regions, a table and shared formulas —
//! geometry the fixture corpus has little of.  A synthesized file is a pure function of its
//! name (`synth-<hex seed>.xlsx|ods`), so a replay file can regenerate it.
//!
//! These files widen the *input* dimension only; the simulated dimensions (histories,
//! delivery, faults) and the oracles are those of the fixtures.

use crate::corpus::{Fixture, Format};
use crate::prng::Chooser;
use crate::spec::Pack;
use crate::zipfmt::{make_entry, write};
use std::sync::Arc;

pub fn name_for(seed: u64, ods: bool) -> String {
    format!("synth-{:016x}.{}", seed, if ods { "ods" } else { "xlsx" })
}

pub fn name_with_ext(seed: u64, ext: &str) -> String {
    format!("synth-{:016x}.{}", seed, ext)
}

pub fn make(name: &str) -> Option<Fixture> {
    let rest = name.strip_prefix("synth-")?;
    let (hex, ext) = rest.split_once('.')?;
    let seed = u64::from_str_radix(hex, 16).ok()?;
    let (format, bytes) = match ext {
        "xlsx" => (Format::Xlsx, xlsx(seed)),
        "ods" => (Format::Ods, ods(seed)),
        "xls" => (Format::Xls, xls(seed)),
        "dual.xls" => (Format::Xls, xls_dual(seed)),
        "xlsb" => (Format::Xlsb, xlsb(seed)),
        _ => return None,
    };
    Some(Fixture { name: name.to_string(), format, bytes: Arc::new(bytes) })
}

fn esc(s: &str) -> String {
    s.replace('&', "&amp;").replace('<', "&lt;").replace('>', "&gt;").replace('"', "&quot;")
}

fn col_name(mut c: u32) -> String {
    let mut s = Vec::new();
    loop {
        s.push(b'A' + (c % 26) as u8);
        if c < 26 {
            break;
        }
        c = c / 26 - 1;
    }
    s.reverse();
    String::from_utf8(s).unwrap()
}

fn a1(r: u32, c: u32) -> String {
    format!("{}{}", col_name(c), r + 1)
}

#[derive(Clone)]
enum V {
    Num(f64),
    Shared(usize),
    Inline(String),
    Bool(bool),
    Err(&'static str),
    Date(f64),
    FormulaNum(String, f64),
    FormulaStr(String, String),
    /// `<c r=".."/>`: present but empty
    Blank,
    EmptyInline,
}

struct Sheet {
    name: String,
    /// row -> cells (col, value), rows ascending, cols ascending
    rows: Vec<(u32, Vec<(u32, V)>)>,
    merges: Vec<(u32, u32, u32, u32)>,
    implicit: bool,
    shared_formula: Option<(u32, u32, u32)>, // (col, first row, last row)
    /// legal oddities of the physical layout, none of which changes what the sheet holds:
    /// 1 = the rows are written last to first, 2 = the last cell is preceded by another cell at
    /// the same position (the later one wins), 4 = the dimension record names the first row only,
    /// 8 = (xlsx) the `<row>` elements carry no `r` attribute while their cells carry full references,
    /// 16 = (xlsx) the merged regions are spread over two `<mergeCells>` blocks
    quirk: u8,
}

/// Which layout oddity sheet `idx` of the workbook `seed` has: a stream of its own, so that the
/// contents of the synthesized sheets are what they were before the oddities existed.
fn quirk_of(seed: u64, idx: usize) -> u8 {
    match crate::prng::h3(seed, crate::prng::tag("synth-quirks"), idx as u64) % 10 {
        0 => 1,
        1 => 2,
        2 => 4,
        3 => 1 | 4,
        4 => 1 | 2,
        5 => 8,
        6 => 8 | 1,
        7 => 16,
        8 => 16 | 4,
        _ => 0,
    }
}

/// Whether the last sheet of the workbook `seed` carries the name of the first one (a stream of
/// its own, see `quirk_of`).  Which of the two a name then selects is the reader's business; that
/// every access path selects the same one is the property's.
fn dup_name(seed: u64, n_sheets: usize) -> bool {
    n_sheets >= 2 && crate::prng::h3(seed, crate::prng::tag("synth-dupname"), 0) % 6 == 0
}

impl Sheet {
    /// The rows in the order and multiplicity in which they are written
    fn emitted_rows(&self) -> Vec<(u32, Vec<(u32, V)>)> {
        let mut rows = self.rows.clone();
        if self.implicit || self.shared_formula.is_some() {
            return rows;
        }
        if self.quirk & 2 != 0 {
            if let Some((_, cs)) = rows.last_mut() {
                if let Some((c, _)) = cs.last().cloned() {
                    let at = cs.len() - 1;
                    cs.insert(at, (c, V::Num(99.0)));
                }
            }
        }
        if self.quirk & 1 != 0 {
            rows.reverse();
        }
        rows
    }
    /// (first row, last row, first column, last column) as the dimension record declares them
    fn declared_dims(&self) -> (u32, u32, u32, u32) {
        let (mut rmin, mut rmax, mut cmin, mut cmax) = (u32::MAX, 0, u32::MAX, 0);
        for (r, cs) in &self.rows {
            rmin = rmin.min(*r);
            rmax = rmax.max(*r);
            for (c, _) in cs {
                cmin = cmin.min(*c);
                cmax = cmax.max(*c);
            }
        }
        if self.quirk & 4 != 0 && !self.implicit {
            (rmin, rmin, cmin, cmin)
        } else {
            (rmin, rmax, cmin, cmax)
        }
    }
}

const WORDS: [&str; 12] = ["alpha", "beta", "gamma & delta", "x<y", "", " lead", "trail ", "ünï", "0", "TRUE", "#N/A", "long long long text"];

fn gen_sheet(ch: &mut Chooser, idx: usize, n_strings: usize) -> Sheet {
    let r0 = match ch.below(4) {
        0 => 0,
        1 => 1,
        _ => ch.below(7) as u32,
    };
    let c0 = if ch.chance(1, 2) { 0 } else { ch.below(5) as u32 };
    let nrows = ch.range(1, 14) as u32;
    let ncols = ch.range(1, 7) as u32;
    let density = ch.range(25, 95);
    let gap_p = ch.below(40);
    let mut rows = Vec::new();
    for r in 0..nrows {
        if r > 0 && r + 1 < nrows && ch.below(100) < gap_p {
            if ch.chance(1, 3) {
                // a row that is present but holds only blank cells
                rows.push((r0 + r, vec![(c0, V::Blank), (c0 + 1, V::EmptyInline)]));
            }
            continue;
        }
        let mut cells = Vec::new();
        for c in 0..ncols {
            if ch.below(100) >= density {
                continue;
            }
            let v = match ch.below(14) {
                0..=3 => V::Num((ch.below(100000) as f64) / 8.0 - 1000.0),
                4..=5 => V::Shared(ch.below(n_strings as u64) as usize),
                6 => V::Inline(WORDS[ch.below(WORDS.len() as u64) as usize].to_string()),
                7 => V::Bool(ch.chance(1, 2)),
                8 => V::Err(*ch.pick(&["#DIV/0!", "#N/A", "#NAME?", "#NULL!", "#NUM!", "#REF!", "#VALUE!"])),
                9 => V::Date(40000.0 + ch.below(5000) as f64 + 0.25),
                10 => V::FormulaNum(format!("{}+1", a1(r0 + r, c0)), ch.below(1000) as f64),
                11 => V::FormulaStr("\"a\"&\"b\"".to_string(), "ab".to_string()),
                12 => V::Blank,
                _ => V::EmptyInline,
            };
            cells.push((c0 + c, v));
        }
        if !cells.is_empty() {
            rows.push((r0 + r, cells));
        }
    }
    if rows.iter().all(|(_, cs)| cs.iter().all(|(_, v)| matches!(v, V::Blank | V::EmptyInline))) {
        rows.push((r0 + nrows, vec![(c0, V::Num(1.0))]));
    }
    let mut merges = Vec::new();
    for _ in 0..ch.below(3) {
        let r = r0 + ch.below(nrows as u64) as u32;
        let c = c0 + ch.below(ncols as u64) as u32;
        merges.push((r, c, r + ch.below(3) as u32, c + ch.below(3) as u32));
    }
    let shared_formula = if ch.chance(1, 3) {
        let col = c0 + ncols + 1;
        Some((col, r0, r0 + ch.range(1, 4) as u32))
    } else {
        None
    };
    Sheet { name: format!("{} {}", *ch.pick(&["Data", "Sheet", "Näme", "a&b", "x"]), idx + 1), rows, merges, implicit: ch.chance(1, 4), shared_formula, quirk: 0 }
}

fn sheet_xml(s: &Sheet) -> String {
    let mut x = String::from("<?xml version=\"1.0\" encoding=\"UTF-8\" standalone=\"yes\"?>\n<worksheet xmlns=\"http://schemas.openxmlformats.org/spreadsheetml/2006/main\" xmlns:r=\"http://schemas.openxmlformats.org/officeDocument/2006/relationships\">");
    let (rmin, rmax, cmin, cmax) = s.declared_dims();
    x.push_str(&format!("<dimension ref=\"{}:{}\"/>", a1(rmin, cmin), a1(rmax, cmax)));
    x.push_str("<sheetData>");
    let mut rows = s.emitted_rows();
    if let Some((col, ra, rb)) = s.shared_formula {
        for r in ra..=rb {
            let v = if r == ra { V::FormulaNum(format!("SHARED:{}:{}", a1(ra, col), a1(rb, col)), 1.0) } else { V::FormulaNum("SHAREDREF".into(), 2.0) };
            match rows.iter_mut().find(|(rr, _)| *rr == r) {
                Some((_, cs)) => cs.push((col, v)),
                None => rows.push((r, vec![(col, v)])),
            }
        }
        rows.sort_by_key(|(r, _)| *r);
    }
    // implicit positions are only expressible for consecutive rows/cells: emit fillers
    let mut next_row = 0u32;
    for (r, cs) in &rows {
        if s.implicit {
            while next_row < *r {
                x.push_str("<row></row>");
                next_row += 1;
            }
            x.push_str("<row>");
        } else if s.quirk & 8 != 0 {
            x.push_str("<row>");
        } else {
            x.push_str(&format!("<row r=\"{}\">", r + 1));
        }
        next_row = r + 1;
        let mut next_col = 0u32;
        for (c, v) in cs {
            let pos = if s.implicit {
                while next_col < *c {
                    x.push_str("<c/>");
                    next_col += 1;
                }
                String::new()
            } else {
                format!(" r=\"{}\"", a1(*r, *c))
            };
            next_col = c + 1;
            match v {
                V::Num(n) => x.push_str(&format!("<c{}><v>{}</v></c>", pos, n)),
                V::Shared(i) => x.push_str(&format!("<c{} t=\"s\"><v>{}</v></c>", pos, i)),
                V::Inline(t) => x.push_str(&format!("<c{} t=\"inlineStr\"><is><t>{}</t></is></c>", pos, esc(t))),
                V::Bool(b) => x.push_str(&format!("<c{} t=\"b\"><v>{}</v></c>", pos, *b as u8)),
                V::Err(e) => x.push_str(&format!("<c{} t=\"e\"><v>{}</v></c>", pos, e)),
                V::Date(d) => x.push_str(&format!("<c{} s=\"1\"><v>{}</v></c>", pos, d)),
                V::FormulaNum(f, n) => {
                    if let Some(rest) = f.strip_prefix("SHARED:") {
                        let (a, b) = rest.split_once(':').unwrap();
                        x.push_str(&format!("<c{}><f t=\"shared\" ref=\"{}:{}\" si=\"0\">A1*2</f><v>{}</v></c>", pos, a, b, n));
                    } else if f == "SHAREDREF" {
                        x.push_str(&format!("<c{}><f t=\"shared\" si=\"0\"/><v>{}</v></c>", pos, n));
                    } else {
                        x.push_str(&format!("<c{}><f>{}</f><v>{}</v></c>", pos, esc(f), n));
                    }
                }
                V::FormulaStr(f, t) => x.push_str(&format!("<c{} t=\"str\"><f>{}</f><v>{}</v></c>", pos, esc(f), esc(t))),
                V::Blank => x.push_str(&format!("<c{} s=\"0\"/>", pos)),
                V::EmptyInline => x.push_str(&format!("<c{} t=\"inlineStr\"><is><t></t></is></c>", pos)),
            }
        }
        x.push_str("</row>");
    }
    x.push_str("</sheetData>");
    if !s.merges.is_empty() {
        x.push_str(&format!("<mergeCells count=\"{}\">", s.merges.len()));
        for (r1, c1, r2, c2) in &s.merges {
            x.push_str(&format!("<mergeCell ref=\"{}:{}\"/>", a1(*r1, *c1), a1(*r2, *c2)));
        }
        x.push_str("</mergeCells>");
    }
    if s.quirk & 16 != 0 {
        if s.merges.is_empty() {
            x.push_str(&format!("<mergeCells count=\"1\"><mergeCell ref=\"{}:{}\"/></mergeCells>", a1(rmin, cmax + 2), a1(rmin + 1, cmax + 2)));
        }
        x.push_str(&format!("<mergeCells count=\"1\"><mergeCell ref=\"{}:{}\"/></mergeCells>", a1(rmax + 2, cmin), a1(rmax + 2, cmin + 1)));
    }
    x.push_str("</worksheet>");
    x
}

pub fn xlsx(seed: u64) -> Vec<u8> {
    let mut ch = Chooser::new(seed, "synth-xlsx");
    let n_sheets = ch.range(1, 4) as usize;
    let strings: Vec<String> = (0..ch.range(3, 9)).map(|i| if i == 1 { String::new() } else { format!("{} {}", WORDS[ch.below(WORDS.len() as u64) as usize], i) }).collect();
    let sheets: Vec<Sheet> = (0..n_sheets)
        .map(|i| {
            let mut s = gen_sheet(&mut ch, i, strings.len());
            s.quirk = quirk_of(seed, i);
            s
        })
        .collect();
    let pack = |ch: &mut Chooser| if ch.chance(1, 2) { Pack::Deflated } else { Pack::Stored };
    let mut entries = Vec::new();
    let mut ct = String::from("<?xml version=\"1.0\" encoding=\"UTF-8\"?><Types xmlns=\"http://schemas.openxmlformats.org/package/2006/content-types\"><Default Extension=\"rels\" ContentType=\"application/vnd.openxmlformats-package.relationships+xml\"/><Default Extension=\"xml\" ContentType=\"application/xml\"/></Types>");
    ct.push('\n');
    entries.push(make_entry("[Content_Types].xml", ct.as_bytes(), pack(&mut ch)));
    entries.push(make_entry(
        "_rels/.rels",
        b"<?xml version=\"1.0\" encoding=\"UTF-8\"?><Relationships xmlns=\"http://schemas.openxmlformats.org/package/2006/relationships\"><Relationship Id=\"rId1\" Type=\"http://schemas.openxmlformats.org/officeDocument/2006/relationships/officeDocument\" Target=\"xl/workbook.xml\"/></Relationships>",
        pack(&mut ch),
    ));
    let mut wb = String::from("<?xml version=\"1.0\" encoding=\"UTF-8\"?><workbook xmlns=\"http://schemas.openxmlformats.org/spreadsheetml/2006/main\" xmlns:r=\"http://schemas.openxmlformats.org/officeDocument/2006/relationships\"><workbookPr/><sheets>");
    let mut rels = String::from("<?xml version=\"1.0\" encoding=\"UTF-8\"?><Relationships xmlns=\"http://schemas.openxmlformats.org/package/2006/relationships\">");
    for (i, s) in sheets.iter().enumerate() {
        let state = if i == 1 && ch.chance(1, 3) { " state=\"hidden\"" } else { "" };
        wb.push_str(&format!("<sheet name=\"{}\" sheetId=\"{}\"{} r:id=\"rId{}\"/>", esc(&s.name), i + 1, state, i + 1));
        rels.push_str(&format!("<Relationship Id=\"rId{}\" Type=\"http://schemas.openxmlformats.org/officeDocument/2006/relationships/worksheet\" Target=\"worksheets/sheet{}.xml\"/>", i + 1, i + 1));
    }
    wb.push_str("</sheets><definedNames><definedName name=\"first\">'");
    wb.push_str(&esc(&sheets[0].name));
    wb.push_str("'!$A$1</definedName></definedNames></workbook>");
    rels.push_str("</Relationships>");
    entries.push(make_entry("xl/workbook.xml", wb.as_bytes(), pack(&mut ch)));
    entries.push(make_entry("xl/_rels/workbook.xml.rels", rels.as_bytes(), pack(&mut ch)));
    let mut sst = format!("<?xml version=\"1.0\" encoding=\"UTF-8\"?><sst xmlns=\"http://schemas.openxmlformats.org/spreadsheetml/2006/main\" count=\"{0}\" uniqueCount=\"{0}\">", strings.len());
    for s in &strings {
        sst.push_str(&format!("<si><t xml:space=\"preserve\">{}</t></si>", esc(s)));
    }
    sst.push_str("</sst>");
    entries.push(make_entry("xl/sharedStrings.xml", sst.as_bytes(), pack(&mut ch)));
    entries.push(make_entry(
        "xl/styles.xml",
        b"<?xml version=\"1.0\" encoding=\"UTF-8\"?><styleSheet xmlns=\"http://schemas.openxmlformats.org/spreadsheetml/2006/main\"><numFmts count=\"1\"><numFmt numFmtId=\"164\" formatCode=\"yyyy\\-mm\\-dd hh:mm\"/></numFmts><cellXfs count=\"2\"><xf numFmtId=\"0\"/><xf numFmtId=\"164\"/></cellXfs></styleSheet>",
        pack(&mut ch),
    ));
    for (i, s) in sheets.iter().enumerate() {
        entries.push(make_entry(&format!("xl/worksheets/sheet{}.xml", i + 1), sheet_xml(s).as_bytes(), pack(&mut ch)));
    }
    // a table on the first sheet, over its bounding box (header row = first row)
    if ch.chance(1, 2) {
        let s = &sheets[0];
        let (mut rmin, mut rmax, mut cmin, mut cmax) = (u32::MAX, 0, u32::MAX, 0);
        for (r, cs) in &s.rows {
            rmin = rmin.min(*r);
            rmax = rmax.max(*r);
            for (c, _) in cs {
                cmin = cmin.min(*c);
                cmax = cmax.max(*c);
            }
        }
        if rmax > rmin {
            entries.push(make_entry(
                "xl/worksheets/_rels/sheet1.xml.rels",
                b"<?xml version=\"1.0\" encoding=\"UTF-8\"?><Relationships xmlns=\"http://schemas.openxmlformats.org/package/2006/relationships\"><Relationship Id=\"rId1\" Type=\"http://schemas.openxmlformats.org/officeDocument/2006/relationships/table\" Target=\"../tables/table1.xml\"/></Relationships>",
                pack(&mut ch),
            ));
            let mut t = format!("<?xml version=\"1.0\" encoding=\"UTF-8\"?><table xmlns=\"http://schemas.openxmlformats.org/spreadsheetml/2006/main\" id=\"1\" name=\"T1\" displayName=\"T1\" ref=\"{}:{}\"><tableColumns count=\"{}\">", a1(rmin, cmin), a1(rmax, cmax), cmax - cmin + 1);
            for c in cmin..=cmax {
                t.push_str(&format!("<tableColumn id=\"{}\" name=\"col{}\"/>", c - cmin + 1, c));
            }
            t.push_str("</tableColumns></table>");
            entries.push(make_entry("xl/tables/table1.xml", t.as_bytes(), pack(&mut ch)));
        }
    }
    write(&entries).0
}

pub fn ods(seed: u64) -> Vec<u8> {
    let mut ch = Chooser::new(seed, "synth-ods");
    let n_sheets = ch.range(1, 3) as usize;
    let mut c = String::from("<?xml version=\"1.0\" encoding=\"UTF-8\"?><office:document-content xmlns:office=\"urn:oasis:names:tc:opendocument:xmlns:office:1.0\" xmlns:table=\"urn:oasis:names:tc:opendocument:xmlns:table:1.0\" xmlns:text=\"urn:oasis:names:tc:opendocument:xmlns:text:1.0\" office:version=\"1.2\"><office:body><office:spreadsheet>");
    for i in 0..n_sheets {
        c.push_str(&format!("<table:table table:name=\"{}{}\">", *ch.pick(&["Tab", "Blatt ", "s&amp;t"]), i + 1));
        let lead = ch.below(5);
        if lead > 0 {
            c.push_str(&format!("<table:table-row table:number-rows-repeated=\"{}\"><table:table-cell table:number-columns-repeated=\"{}\"/></table:table-row>", lead, ch.range(1, 5)));
        }
        let nrows = ch.range(1, 10);
        let lead_cols = ch.below(4);
        for r in 0..nrows {
            if r > 0 && r + 1 < nrows && ch.chance(1, 4) {
                c.push_str(&format!("<table:table-row table:number-rows-repeated=\"{}\"><table:table-cell/></table:table-row>", ch.range(1, 3)));
                continue;
            }
            let rep = if ch.chance(1, 6) { format!(" table:number-rows-repeated=\"{}\"", ch.range(2, 3)) } else { String::new() };
            c.push_str(&format!("<table:table-row{}>", rep));
            if lead_cols > 0 {
                c.push_str(&format!("<table:table-cell table:number-columns-repeated=\"{}\"/>", lead_cols));
            }
            let ncells = ch.range(1, 6);
            for _ in 0..ncells {
                match ch.below(8) {
                    0..=2 => c.push_str(&format!("<table:table-cell office:value-type=\"float\" office:value=\"{}\"><text:p>x</text:p></table:table-cell>", ch.below(10000) as f64 / 4.0)),
                    3 => c.push_str(&format!("<table:table-cell office:value-type=\"string\"><text:p>{}</text:p></table:table-cell>", esc(WORDS[ch.below(WORDS.len() as u64) as usize]))),
                    4 => c.push_str("<table:table-cell office:value-type=\"boolean\" office:boolean-value=\"true\"><text:p>TRUE</text:p></table:table-cell>"),
                    5 => c.push_str(&format!("<table:table-cell table:number-columns-repeated=\"{}\"/>", ch.range(1, 3))),
                    6 => c.push_str("<table:table-cell table:formula=\"of:=[.A1]+1\" office:value-type=\"float\" office:value=\"2\"><text:p>2</text:p></table:table-cell>"),
                    _ => c.push_str(&format!("<table:table-cell office:value-type=\"float\" office:value=\"7\" table:number-columns-repeated=\"{}\"><text:p>7</text:p></table:table-cell>", ch.range(2, 3))),
                }
            }
            c.push_str("</table:table-row>");
        }
        // the usual trailing filler of LibreOffice
        if ch.chance(1, 2) {
            c.push_str("<table:table-row table:number-rows-repeated=\"1048000\"><table:table-cell table:number-columns-repeated=\"1024\"/></table:table-row>");
        }
        c.push_str("</table:table>");
    }
    c.push_str("</office:spreadsheet></office:body></office:document-content>");
    let entries = vec![
        make_entry("mimetype", b"application/vnd.oasis.opendocument.spreadsheet", Pack::Stored),
        make_entry(
            "META-INF/manifest.xml",
            b"<?xml version=\"1.0\" encoding=\"UTF-8\"?><manifest:manifest xmlns:manifest=\"urn:oasis:names:tc:opendocument:xmlns:manifest:1.0\"><manifest:file-entry manifest:full-path=\"/\" manifest:media-type=\"application/vnd.oasis.opendocument.spreadsheet\"/><manifest:file-entry manifest:full-path=\"content.xml\" manifest:media-type=\"text/xml\"/></manifest:manifest>",
            Pack::Deflated,
        ),
        make_entry("content.xml", c.as_bytes(), Pack::Deflated),
    ];
    write(&entries).0
}


// ------------------------------------------------------------------------------------------
// binary formats: the same sparse grids written as BIFF8 (in a compound file) and as xlsb
// ------------------------------------------------------------------------------------------

/// A simple value for the binary writers.
enum B {
    Num(f64),
    Str(String),
    Bool(bool),
    Err(u8),
    Blank,
}

fn simple(v: &V, strings: &[String]) -> B {
    match v {
        V::Num(n) | V::Date(n) | V::FormulaNum(_, n) => B::Num(*n),
        V::Shared(i) => B::Str(strings[*i].clone()),
        V::Inline(t) => B::Str(t.clone()),
        V::FormulaStr(_, t) => B::Str(t.clone()),
        V::Bool(b) => B::Bool(*b),
        V::Err(e) => B::Err(match *e {
            "#NULL!" => 0x00,
            "#DIV/0!" => 0x07,
            "#VALUE!" => 0x0F,
            "#REF!" => 0x17,
            "#NAME?" => 0x1D,
            "#NUM!" => 0x24,
            _ => 0x2A,
        }),
        V::Blank | V::EmptyInline => B::Blank,
    }
}

fn grid_sheets(seed: u64, tag: &str) -> (Vec<Sheet>, Vec<String>) {
    let mut ch = Chooser::new(seed, tag);
    let n_sheets = ch.range(1, 4) as usize;
    let strings: Vec<String> = (0..ch.range(3, 9)).map(|i| format!("{} {}", WORDS[ch.below(WORDS.len() as u64) as usize], i)).collect();
    let dup = dup_name(seed, n_sheets);
    let sheets = (0..n_sheets)
        .map(|i| {
            let mut s = gen_sheet(&mut ch, i, strings.len());
            s.name = if dup && i + 1 == n_sheets { "S1".to_string() } else { format!("S{}", i + 1) };
            s.shared_formula = None;
            s.implicit = false;
            s.quirk = quirk_of(seed, i);
            s
        })
        .collect();
    (sheets, strings)
}

fn biff_rec(out: &mut Vec<u8>, typ: u16, data: &[u8]) {
    out.extend_from_slice(&typ.to_le_bytes());
    out.extend_from_slice(&(data.len() as u16).to_le_bytes());
    out.extend_from_slice(data);
}

pub fn xls(seed: u64) -> Vec<u8> {
    let g = xls_stream(seed, 0);
    let dir = vec![crate::cfbfmt::make_dir_entry(0, "Root Entry", 5, 1), crate::cfbfmt::make_dir_entry(1, "Workbook", 2, crate::cfbfmt::FREESECT)];
    let streams = vec![Vec::new(), g];
    crate::cfbfmt::write(&dir, &streams).0
}

/// The dual-format layout Excel writes for "Excel 5.0/95 & 97-2003 workbook": a `Workbook` stream
/// and a `Book` stream side by side, with *different* contents here, so that a reader which picks
/// the wrong one is seen.  Readers must take `Workbook`.
pub fn xls_dual(seed: u64) -> Vec<u8> {
    // padded past the 4096-byte cutoff: small streams live in the mini stream, which is loaded with
    // the container; only regular streams are read when they are asked for
    let wb = xls_stream(seed, 6000);
    let book = xls_stream(seed ^ 0x5EED_B00C, 5000);
    let mut e1 = crate::cfbfmt::make_dir_entry(1, "Workbook", 2, crate::cfbfmt::FREESECT);
    // right sibling of the first stream: the second one
    e1.raw[72..76].copy_from_slice(&2u32.to_le_bytes());
    let dir = vec![crate::cfbfmt::make_dir_entry(0, "Root Entry", 5, 1), e1, crate::cfbfmt::make_dir_entry(2, "Book", 2, crate::cfbfmt::FREESECT)];
    let streams = vec![Vec::new(), wb, book];
    crate::cfbfmt::write(&dir, &streams).0
}

fn xls_stream(seed: u64, pad: usize) -> Vec<u8> {
    let (sheets, strings) = grid_sheets(seed, "synth-xls");
    // sheet substreams first, to know their offsets
    let mut subs: Vec<Vec<u8>> = Vec::new();
    for s in &sheets {
        let mut o = Vec::new();
        let mut bof = Vec::new();
        bof.extend_from_slice(&0x0600u16.to_le_bytes());
        bof.extend_from_slice(&0x0010u16.to_le_bytes());
        bof.extend_from_slice(&[0xBB, 0x0D, 0xCC, 0x07, 0, 0, 0, 0, 6, 0, 0, 0]);
        biff_rec(&mut o, 0x0809, &bof);
        let (rmin, rmax, cmin, cmax) = s.declared_dims();
        let mut dim = Vec::new();
        dim.extend_from_slice(&rmin.to_le_bytes());
        dim.extend_from_slice(&(rmax + 1).to_le_bytes());
        dim.extend_from_slice(&(cmin as u16).to_le_bytes());
        dim.extend_from_slice(&(cmax as u16 + 1).to_le_bytes());
        dim.extend_from_slice(&0u16.to_le_bytes());
        biff_rec(&mut o, 0x0200, &dim);
        for (r, cs) in &s.emitted_rows() {
            for (c, v) in cs {
                let mut d = Vec::new();
                d.extend_from_slice(&(*r as u16).to_le_bytes());
                d.extend_from_slice(&(*c as u16).to_le_bytes());
                d.extend_from_slice(&0u16.to_le_bytes());
                match simple(v, &strings) {
                    B::Num(n) => {
                        d.extend_from_slice(&n.to_le_bytes());
                        biff_rec(&mut o, 0x0203, &d);
                    }
                    B::Str(t) => {
                        let units: Vec<u16> = t.encode_utf16().collect();
                        d.extend_from_slice(&(units.len() as u16).to_le_bytes());
                        d.push(1); // uncompressed UTF-16
                        for u in units {
                            d.extend_from_slice(&u.to_le_bytes());
                        }
                        biff_rec(&mut o, 0x0204, &d);
                    }
                    B::Bool(b) => {
                        d.push(b as u8);
                        d.push(0);
                        biff_rec(&mut o, 0x0205, &d);
                    }
                    B::Err(e) => {
                        d.push(e);
                        d.push(1);
                        biff_rec(&mut o, 0x0205, &d);
                    }
                    B::Blank => biff_rec(&mut o, 0x0201, &d),
                }
            }
        }
        biff_rec(&mut o, 0x000A, &[]);
        subs.push(o);
    }
    // globals
    let mut g = Vec::new();
    let mut bof = Vec::new();
    bof.extend_from_slice(&0x0600u16.to_le_bytes());
    bof.extend_from_slice(&0x0005u16.to_le_bytes());
    bof.extend_from_slice(&[0xBB, 0x0D, 0xCC, 0x07, 0, 0, 0, 0, 6, 0, 0, 0]);
    biff_rec(&mut g, 0x0809, &bof);
    biff_rec(&mut g, 0x0042, &1200u16.to_le_bytes());
    if pad > 0 {
        // BOOKEXT, which readers skip
        biff_rec(&mut g, 0x0863, &vec![0u8; pad.min(8000)]);
    }
    let bs_len: usize = sheets.iter().map(|s| 4 + 6 + 2 + s.name.len()).sum();
    let globals_len = g.len() + bs_len + 4;
    let mut pos = globals_len;
    for (s, sub) in sheets.iter().zip(&subs) {
        let mut d = Vec::new();
        d.extend_from_slice(&(pos as u32).to_le_bytes());
        d.push(0);
        d.push(0);
        d.push(s.name.len() as u8);
        d.push(0);
        d.extend_from_slice(s.name.as_bytes());
        biff_rec(&mut g, 0x0085, &d);
        pos += sub.len();
    }
    biff_rec(&mut g, 0x000A, &[]);
    debug_assert_eq!(g.len(), globals_len);
    for sub in subs {
        g.extend_from_slice(&sub);
    }
    g
}

fn brt(out: &mut Vec<u8>, typ: u16, data: &[u8]) {
    if typ < 0x80 {
        out.push(typ as u8);
    } else {
        out.push((typ & 0x7F) as u8 | 0x80);
        out.push((typ >> 7) as u8);
    }
    let mut n = data.len();
    loop {
        let b = (n & 0x7F) as u8;
        n >>= 7;
        if n == 0 {
            out.push(b);
            break;
        }
        out.push(b | 0x80);
    }
    out.extend_from_slice(data);
}

fn wide(s: &str) -> Vec<u8> {
    let units: Vec<u16> = s.encode_utf16().collect();
    let mut v = (units.len() as u32).to_le_bytes().to_vec();
    for u in units {
        v.extend_from_slice(&u.to_le_bytes());
    }
    v
}

pub fn xlsb(seed: u64) -> Vec<u8> {
    let (sheets, strings) = grid_sheets(seed, "synth-xlsb");
    let mut ch = Chooser::new(seed, "synth-xlsb-pack");
    let mut entries = Vec::new();
    let pack = |ch: &mut Chooser| if ch.chance(1, 2) { Pack::Deflated } else { Pack::Stored };
    // workbook.bin
    let mut wb = Vec::new();
    brt(&mut wb, 0x0083, &[]);
    let mut prop = vec![0u8; 8];
    prop.extend_from_slice(&wide(""));
    brt(&mut wb, 0x0099, &prop);
    brt(&mut wb, 0x008F, &[]);
    let mut rels = String::from("<?xml version=\"1.0\" encoding=\"UTF-8\"?><Relationships xmlns=\"http://schemas.openxmlformats.org/package/2006/relationships\">");
    for (i, s) in sheets.iter().enumerate() {
        let mut d = Vec::new();
        d.extend_from_slice(&0u32.to_le_bytes());
        d.extend_from_slice(&(i as u32 + 1).to_le_bytes());
        d.extend_from_slice(&wide(&format!("rId{}", i + 1)));
        d.extend_from_slice(&wide(&s.name));
        brt(&mut wb, 0x009C, &d);
        rels.push_str(&format!("<Relationship Id=\"rId{}\" Type=\"http://schemas.openxmlformats.org/officeDocument/2006/relationships/worksheet\" Target=\"worksheets/sheet{}.bin\"/>", i + 1, i + 1));
    }
    rels.push_str("</Relationships>");
    brt(&mut wb, 0x0090, &[]);
    brt(&mut wb, 0x0084, &[]);
    entries.push(make_entry("xl/workbook.bin", &wb, pack(&mut ch)));
    entries.push(make_entry("xl/_rels/workbook.bin.rels", rels.as_bytes(), pack(&mut ch)));
    // shared strings: every string cell of even column goes through the table
    let mut sst_items: Vec<String> = Vec::new();
    let mut sheet_parts: Vec<Vec<u8>> = Vec::new();
    for s in &sheets {
        let mut o = Vec::new();
        brt(&mut o, 0x0081, &[]);
        let (rmin, rmax, cmin, cmax) = s.declared_dims();
        let mut dim = Vec::new();
        for v in [rmin, rmax, cmin, cmax] {
            dim.extend_from_slice(&v.to_le_bytes());
        }
        brt(&mut o, 0x0094, &dim);
        brt(&mut o, 0x0091, &[]);
        for (r, cs) in &s.emitted_rows() {
            let mut rh = r.to_le_bytes().to_vec();
            rh.extend_from_slice(&[0u8; 13]);
            brt(&mut o, 0x0000, &rh);
            for (c, v) in cs {
                let mut d = c.to_le_bytes().to_vec();
                d.extend_from_slice(&[0, 0, 0, 0]);
                match simple(v, &strings) {
                    B::Num(n) => {
                        d.extend_from_slice(&n.to_le_bytes());
                        brt(&mut o, 0x0005, &d);
                    }
                    B::Str(t) => {
                        if c % 2 == 0 {
                            let idx = match sst_items.iter().position(|x| *x == t) {
                                Some(i) => i,
                                None => {
                                    sst_items.push(t.clone());
                                    sst_items.len() - 1
                                }
                            };
                            d.extend_from_slice(&(idx as u32).to_le_bytes());
                            brt(&mut o, 0x0007, &d);
                        } else {
                            d.extend_from_slice(&wide(&t));
                            brt(&mut o, 0x0006, &d);
                        }
                    }
                    B::Bool(b) => {
                        d.push(b as u8);
                        brt(&mut o, 0x0004, &d);
                    }
                    B::Err(e) => {
                        d.push(e);
                        brt(&mut o, 0x0003, &d);
                    }
                    B::Blank => brt(&mut o, 0x0001, &d),
                }
            }
        }
        brt(&mut o, 0x0092, &[]);
        brt(&mut o, 0x0082, &[]);
        sheet_parts.push(o);
    }
    let mut sst = Vec::new();
    let mut hdr = (sst_items.len() as u32).to_le_bytes().to_vec();
    hdr.extend_from_slice(&(sst_items.len() as u32).to_le_bytes());
    brt(&mut sst, 0x009F, &hdr);
    for t in &sst_items {
        let mut d = vec![0u8];
        d.extend_from_slice(&wide(t));
        brt(&mut sst, 0x0013, &d);
    }
    brt(&mut sst, 0x00A0, &[]);
    entries.push(make_entry("xl/sharedStrings.bin", &sst, pack(&mut ch)));
    for (i, p) in sheet_parts.iter().enumerate() {
        entries.push(make_entry(&format!("xl/worksheets/sheet{}.bin", i + 1), p, pack(&mut ch)));
    }
    write(&entries).0
}
