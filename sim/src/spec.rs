//! The replayable description of one simulated execution and of its result.
//!
//! A seeded run is `gen(seed) -> RunSpec -> exec(RunSpec) -> RunResult`.  The spec contains no
//! PRNG state except the delivery seed, whose per-event decisions are a pure function of the
//! event number; so a replay file (spec + expected violation) re-executes exactly.

use crate::simdisk::Delivery;
use crate::wb::{Entry, Op};
use serde::{Deserialize, Serialize};

/// Byte-level edit of an image, a zip part or a compound-file stream.  Every higher-level
/// fault (bit flip, torn tail, lost sector, record tamper, numeric extreme, …) is generated
/// as one or more of these, with the reason recorded in `StoredFault::why`.
#[derive(Clone, Debug, PartialEq, Eq, Serialize, Deserialize)]
pub enum Edit {
    /// overwrite `bytes.len()` bytes at `off` (ignored beyond the end)
    Set { off: usize, bytes: Vec<u8> },
    /// keep only the first `len` bytes
    Trunc { len: usize },
    /// remove `len` bytes at `off`
    Delete { off: usize, len: usize },
    /// insert bytes at `off`
    Insert { off: usize, bytes: Vec<u8> },
    /// insert `count` copies of `pattern` at `off`; in copy i the counter `start + i * step`
    /// replaces every `{#}` (ASCII decimal) and is written little-endian at the `(offset, width)`
    /// positions of `le` — large adversarial inputs (amplification) without megabytes in the spec
    Repeat { off: usize, pattern: Vec<u8>, count: u32, start: i64, step: i64, le: Vec<(u16, u8)> },
}

impl Edit {
    pub fn apply(&self, v: &mut Vec<u8>) {
        match self {
            Edit::Set { off, bytes } => {
                for (i, b) in bytes.iter().enumerate() {
                    if let Some(x) = v.get_mut(off + i) {
                        *x = *b;
                    }
                }
            }
            Edit::Trunc { len } => v.truncate(*len),
            Edit::Delete { off, len } => {
                if *off < v.len() {
                    let end = (off + len).min(v.len());
                    v.drain(*off..end);
                }
            }
            Edit::Insert { off, bytes } => {
                let at = (*off).min(v.len());
                v.splice(at..at, bytes.iter().copied());
            }
            Edit::Repeat { off, pattern, count, start, step, le } => {
                let at = (*off).min(v.len());
                let mut gen: Vec<u8> = Vec::with_capacity(pattern.len() * *count as usize + 16);
                for i in 0..*count as i64 {
                    let val = start + i * step;
                    let mut p = pattern.clone();
                    for (o, w) in le {
                        let b = (val as u64).to_le_bytes();
                        let o = *o as usize;
                        if o + *w as usize <= p.len() {
                            p[o..o + *w as usize].copy_from_slice(&b[..*w as usize]);
                        }
                    }
                    let dec = val.to_string();
                    let mut k = 0;
                    while k < p.len() {
                        if p[k..].starts_with(b"{#}") {
                            gen.extend_from_slice(dec.as_bytes());
                            k += 3;
                        } else {
                            gen.push(p[k]);
                            k += 1;
                        }
                    }
                }
                v.splice(at..at, gen);
            }
        }
    }
    /// bytes this edit generates (for the time budget of amplified inputs)
    pub fn generated(&self) -> usize {
        match self {
            Edit::Repeat { pattern, count, .. } => (pattern.len() + 8) * *count as usize,
            Edit::Insert { bytes, .. } => bytes.len(),
            _ => 0,
        }
    }
    /// first byte offset touched (for the consumed/dormant classification)
    pub fn offset(&self) -> usize {
        match self {
            Edit::Set { off, .. } | Edit::Delete { off, .. } | Edit::Insert { off, .. } | Edit::Repeat { off, .. } => *off,
            Edit::Trunc { len } => *len,
        }
    }
}

#[derive(Clone, Copy, Debug, PartialEq, Eq, Serialize, Deserialize)]
pub enum Pack {
    Stored,
    Deflated,
}

#[derive(Clone, Debug, PartialEq, Eq, Serialize, Deserialize)]
pub enum Layer {
    /// layer 0: the raw image
    Raw,
    /// layer 1: a part of a zip container, edited decompressed and repacked validly
    ZipPart { part: String, pack: Pack },
    /// layer 1: a stream of a compound file, container rewritten validly
    CfbStream { stream: String },
    /// a zip part that is itself a compound file (`xl/vbaProject.bin`), edited raw and repacked
    ZipPartDelete { part: String },
    ZipPartRename { part: String, to: String },
    /// the part's content is replaced by another part's content (type confusion)
    ZipPartSwap { part: String, with: String },
    /// a stream inside a compound file that is itself a zip part
    ZipCfbStream { part: String, stream: String },
}

#[derive(Clone, Debug, PartialEq, Eq, Serialize, Deserialize)]
pub struct StoredFault {
    pub layer: Layer,
    /// `None` for the structural layers (delete / rename / swap)
    pub edit: Option<Edit>,
    pub why: String,
}

#[derive(Clone, Debug, Serialize, Deserialize)]
pub struct RunSpec {
    pub property: String,
    /// fixture file name under `/repo/tests`, or `synth:<name>` for a synthesized workbook
    pub file: String,
    /// when set, the image is this part extracted from the (zip) fixture, e.g. `xl/vbaProject.bin`
    #[serde(default)]
    pub inner: Option<String>,
    pub entry: Entry,
    #[serde(default)]
    pub stored_faults: Vec<StoredFault>,
    pub delivery: Delivery,
    pub ops: Vec<Op>,
    #[serde(default)]
    pub note: String,
}

#[derive(Clone, Debug, Serialize, Deserialize, PartialEq, Eq)]
pub struct Violation {
    /// panic | alloc | hang | steps | crash | mismatch | spec | agreement
    pub class: String,
    /// site key (`file::fn::source text`) for panic/alloc; a stable label for oracle violations
    pub origin: String,
    #[serde(default)]
    pub client: String,
    #[serde(default)]
    pub msg: String,
    /// index of the API call (0 = open) the violation was observed in
    #[serde(default)]
    pub op: i32,
    #[serde(default)]
    pub detail: String,
}

impl Violation {
    pub fn key(&self) -> (String, String) {
        (self.class.clone(), self.origin.clone())
    }
}

#[derive(Clone, Debug, Default, Serialize, Deserialize)]
pub struct RunResult {
    pub idx: u64,
    /// hash of (file, entry, ops, faults): identity of the execution
    pub exec: u64,
    /// hash of the I/O request trace
    pub io: u64,
    /// hash of everything deterministic about the run (trace, results, counters)
    pub det: u64,
    pub nontrivial: bool,
    pub events: u64,
    pub bytes: u64,
    pub ops: u32,
    /// short_reads, eintr, eio, eio_sticky, seek_err, dead_hits
    pub fired: [u64; 6],
    /// stored faults applied / consumed (touched bytes were delivered to the reader)
    pub stored: u32,
    pub consumed: u32,
    /// labels of stored-fault kinds applied in this run
    #[serde(default)]
    pub kinds: Vec<String>,
    /// outcome class of the run as a whole (open result etc.)
    #[serde(default)]
    pub outcome: String,
    #[serde(default)]
    pub probes: Vec<String>,
    #[serde(default)]
    pub violations: Vec<Violation>,
    /// present when there is a violation or when asked for
    #[serde(default)]
    pub spec: Option<RunSpec>,
    /// a printable sample of the case (only when sampled)
    #[serde(default)]
    pub sample: Option<serde_json::Value>,
    pub peak: u64,
    pub cpu_us: u64,
    /// which part of the index space the run belongs to (enumerated sweep / seeded search)
    #[serde(default)]
    pub phase: String,
}
